#!/usr/bin/env python3
"""Mutation self-test: applies each edit of selftest/mutations.json to a scratch copy of
/repo/src (under a fresh temp dir, removed afterwards) and runs the named property check
with --repo <scratch>.  A property-breaking edit must give exit 1 (VIOLATION); a
semantics-preserving edit must give exit 0.

  python3 selftest/run.py [--only ID[,ID]] [--prop C16] [--jobs N] [--native]
"""
import argparse, json, os, shutil, subprocess, sys, tempfile, concurrent.futures as cf

HERE = os.path.dirname(os.path.dirname(os.path.abspath(__file__)))


def one(m, native, tier):
    d = tempfile.mkdtemp(prefix="nanoemoji_mut_")
    try:
        shutil.copytree("/repo/src", os.path.join(d, "src"))
        p = os.path.join(d, "src", "nanoemoji", m["file"])
        s = open(p).read()
        if s.count(m["old"]) < 1:
            return m["id"], "STALE", "pattern not found"
        s = s.replace(m["old"], m["new"], 1)
        open(p, "w").write(s)
        out = []
        verdicts = []
        for prop in m["props"]:
            cmd = ["python3-vt", os.path.join(HERE, "vc", "run.py"), "--property", prop, "--repo", d, "--tier", tier, "--evidence", os.path.join(d, f"ev_{prop}.json")]
            if not (native or m.get("native")):
                cmd.append("--no-native")
            if m.get("only"):
                cmd += ["--only", m["only"]]
            r = subprocess.run(cmd, capture_output=True, text=True, cwd=HERE)
            verdicts.append(r.returncode)
            out.append(f"[{prop}] exit={r.returncode} " + " | ".join(l for l in r.stdout.splitlines() if l.startswith(("VIOLATION", "CHECKER", "UNDECIDED")))[:400])
        want = 0 if m.get("preserving") else 1
        ok = (want in verdicts) if want == 1 else all(v == 0 for v in verdicts)
        return m["id"], "ok" if ok else "MISSED" if want == 1 else "FALSE-ALARM", "; ".join(out)
    finally:
        shutil.rmtree(d, ignore_errors=True)


def main():
    ap = argparse.ArgumentParser()
    ap.add_argument("--only")
    ap.add_argument("--prop")
    ap.add_argument("--jobs", type=int, default=4)
    ap.add_argument("--native", action="store_true")
    ap.add_argument("--tier", default="quick")
    a = ap.parse_args()
    muts = json.load(open(os.path.join(HERE, "selftest", "mutations.json")))
    if a.only:
        ids = set(a.only.split(","))
        muts = [m for m in muts if m["id"] in ids]
    if a.prop:
        muts = [m for m in muts if a.prop in m["props"]]
    bad = 0
    with cf.ThreadPoolExecutor(a.jobs) as ex:
        for mid, verdict, detail in ex.map(lambda m: one(m, a.native, a.tier), muts):
            print(f"{mid:8s} {verdict:12s} {detail[:300]}", flush=True)
            bad += verdict != "ok"
    print(f"{len(muts) - bad}/{len(muts)} as expected")
    return 1 if bad else 0


if __name__ == "__main__":
    sys.exit(main())
