"""Process-level run-time contracts (bounded tier): maximum_color (C12), determinism (C08)."""
from vlib import *
import e2e3 as Y


@contract("nanoemoji.maximum_color._run", props=["C12", "C08"])
class e2e_maximum_color:
    bounded_only = True
    gen = Y.gen_max_color
    native_call = Y.run_maximum_color
    n_quick = 8
    n_thorough = 80
    ensures = {
        # the written font keeps cmap, advances and the original colour table's picture, adds
        # the complementary vector table (and CBDT with --bitmaps), all colour tables paint the
        # same picture for the glyph reached from the same codepoint, names kept/stripped
        "adds-colour-tables-without-altering-the-font": lambda glyphs, overrides, bitmaps, keep_names, result: Y.max_color_problems(
            glyphs, overrides, bitmaps, keep_names, result
        )
        == [],
        # C08 for this pipeline: the same input under another PYTHONHASHSEED, byte for byte
        "same-bytes-under-another-hash-seed": lambda result: result["font_out"] is None or result["same_bytes_other_hash_seed"] is True,
    }


@contract("nanoemoji.nanoemoji._run", props=["C08"])
class e2e_determinism:
    bounded_only = True
    gen = Y.gen_determinism
    native_call = Y.run_twice
    n_quick = 8
    n_thorough = 60
    ensures = {
        # with SOURCE_DATE_EPOCH fixed the output bytes do not depend on argv order, hash seed,
        # build-directory location, working directory or ninja parallelism
        "same-bytes": lambda result: "error" not in result and result["same"],
    }


@contract("nanoemoji.glue_together._copy_cbdt", props=["C12", "C07", "C14"])
class copy_cbdt_runs:
    bounded_only = True
    gen = Y.gen_copy_cbdt
    native_call = Y.run_copy_cbdt
    n_quick = 4
    n_thorough = 24
    ensures = {
        # grafting CBDT/CBLC onto a font whose colour glyphs are not one run of glyph ids:
        # one strike per run, exactly one bitmap per colour glyph (its own), none for others,
        # and the tables survive compile -> load -> compile
        "one-bitmap-per-colour-glyph-in-consecutive-runs": lambda glyphs, pngs, result: Y.copy_cbdt_problems(glyphs, pngs, result) == [],
    }
