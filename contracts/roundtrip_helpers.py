"""native helpers for c_roundtrips.py (never interpreted by the prover)"""
import io
import os
import random
import re
import tempfile
from pathlib import Path

_ALPHA = ["a", "B", "z", " ", ",", "'", "é", "字", "-", "_", ".", "#", "=", "[", "]", "\t", "\\", "/", ":", "1"]


def _s(rng, lo=1, hi=8, extra=()):
    n = rng.randint(lo, hi)
    return "".join(rng.choice(_ALPHA + list(extra)) for _ in range(n))


def _toml_unsafe(s):
    """K7 witness class (toml 0.10.2, measured exhaustively over a 6-letter alphabet up to
    length 5): the string is a single double quote or starts with two double quotes (comes
    back empty / truncated), or contains a backslash followed by x, u or U (load raises or
    un-escapes), or contains NUL / DEL"""
    return s == '"' or s.startswith('""') or re.search(r"\\[xuU]", s) is not None or "\x00" in s or "\x7f" in s


def _flags_reset():
    from absl import flags

    F = flags.FLAGS
    for name in _FLAG_NAMES:
        setattr(F, name, None)


_FLAG_NAMES = [
    "upem", "width", "ascender", "descender", "linegap", "transform", "version_major", "version_minor", "family",
    "output_file", "color_format", "keep_glyph_names", "clip_to_viewbox", "reuse_tolerance", "ignore_reuse_error",
    "clipbox_quantization", "pretty_print", "fea_file", "glyphmap_generator", "bitmap_resolution", "use_zopflipng",
    "use_pngquant", "pngquant_flags",
]


def _base_config():
    from nanoemoji import config

    _flags_reset()
    return config.load(None, additional_srcs=())


def config_with(**kw):
    return _base_config()._replace(**kw)


def _rand_fields(rng):
    from picosvg.svg_transform import Affine2D

    fmts = ["glyf", "glyf_colr_0", "glyf_colr_1", "cff_colr_1", "picosvg", "untouchedsvgz", "cbdt", "sbix"]
    t = rng.choice(
        [
            Affine2D.identity(),
            Affine2D(1, 0, 0, 1, rng.randint(-50, 50), rng.randint(-50, 50)),
            Affine2D(rng.choice([0.5, 2.0, 1.25]), 0, 0, rng.choice([0.5, 1.0, 2.0]), 0, 0),
            Affine2D(0.8, 0.2, -0.2, 0.8, 10, -3),
        ]
    )
    f = dict(
        family=_s(rng, extra=['"']),
        output_file=_s(rng, 1, 6) + rng.choice([".ttf", ".otf"]),
        color_format=rng.choice(fmts),
        upem=rng.choice([1000, 1024, 2048, rng.randint(16, 4000)]),
        width=rng.choice([0, 600, 1275, rng.randint(0, 3000)]),
        ascender=rng.randint(0, 2000),
        descender=-rng.randint(0, 800),
        linegap=rng.randint(0, 300),
        transform=t,
        version_major=rng.randint(0, 20),
        version_minor=rng.randint(0, 999),
        reuse_tolerance=rng.choice([0.1, -1.0, 0.05, 1.0, 0.25]),
        ignore_reuse_error=rng.random() < 0.5,
        keep_glyph_names=rng.random() < 0.5,
        clip_to_viewbox=rng.random() < 0.5,
        clipbox_quantization=rng.choice([None, 1, 7, 32]),
        pretty_print=rng.random() < 0.5,
        fea_file=_s(rng) + ".fea",
        glyphmap_generator=rng.choice(["nanoemoji.write_glyphmap", "my.module"]),
        bitmap_resolution=rng.choice([128, 64, 32, 255]),
        use_zopflipng=rng.random() < 0.5,
        use_pngquant=rng.random() < 0.5,
        pngquant_flags=_s(rng, 0, 10),
    )
    return f


def gen_config(rng):
    while True:
        f = _rand_fields(rng)
        if any(isinstance(v, str) and _toml_unsafe(v) for v in f.values()):
            continue
        return {"config": _base_config()._replace(**f), "flags": {}}


def gen_config_and_flags(rng):
    while True:
        f = _rand_fields(rng)
        g = _rand_fields(rng)
        if any(isinstance(v, str) and _toml_unsafe(v) for v in list(f.values()) + list(g.values())):
            continue
        names = rng.sample(sorted(g), rng.randint(1, 6))
        flags = {n: g[n] for n in names}
        if "transform" in flags:
            flags["transform"] = flags["transform"].tostring()
        if "clipbox_quantization" in flags and flags["clipbox_quantization"] is None:
            del flags["clipbox_quantization"]
        return {"config": _base_config()._replace(**f), "flags": flags}


def write_then_load(config, flags):
    from nanoemoji import config as C
    from absl import flags as absl_flags

    with tempfile.TemporaryDirectory(prefix="verif_cfg_") as d:
        p = Path(d) / "c.toml"
        _flags_reset()
        C.write(p, config)
        try:
            for k, v in flags.items():
                setattr(absl_flags.FLAGS, k, v)
            return C.load(p)
        finally:
            _flags_reset()


_DERIVED = {"masters", "source_names"}  # recomputed from output_file / sources on load


def _norm(name, v):
    if name == "transform":
        return tuple(round(x, 9) for x in v)
    return v


def config_diff(a, b):
    return [(n, getattr(a, n), getattr(b, n)) for n in a._fields if n not in _DERIVED and _norm(n, getattr(a, n)) != _norm(n, getattr(b, n))] + (
        [] if [(m.name, m.style_name, m.position) for m in a.masters] == [(m.name, m.style_name, m.position) for m in b.masters] else [("masters", a.masters, b.masters)]
    )


def unwritten_fields(config):
    import toml
    from nanoemoji import config as C

    with tempfile.TemporaryDirectory(prefix="verif_cfg_") as d:
        p = Path(d) / "c.toml"
        # give every optional field a value so that a missing key means "not written"
        C.write(p, config._replace(clipbox_quantization=config.clipbox_quantization or 3))
        keys = set(toml.load(p))
    renamed = {"axes": "axis", "masters": "master"}
    return [f for f in config._fields if f != "source_names" and renamed.get(f, f) not in keys]


def precedence_diff(config, flags, result):
    from picosvg.svg_transform import Affine2D

    bad = []
    for n in config._fields:
        if n in _DERIVED:
            continue
        want = getattr(config, n)
        if n in flags:
            want = flags[n]
            if n == "transform":
                want = Affine2D.fromstring(want)
        if _norm(n, want) != _norm(n, getattr(result, n)):
            bad.append((n, want, getattr(result, n)))
    return bad


# ---- glyph mapping csv


def _path(rng):
    segs = [_s(rng, 1, 6, extra=['"']).replace("/", "_").replace("\\", "_") for _ in range(rng.randint(1, 3))]
    p = "/".join(s.strip() or "x" for s in segs) + rng.choice([".svg", ".png"])
    return p


def mapping_with_path(p):
    from nanoemoji.glyphmap import GlyphMapping

    return GlyphMapping(Path(p), None, (0x1F600,), "g_1f600")


def gen_mapping(rng):
    from nanoemoji.glyphmap import GlyphMapping
    from nanoemoji.glyph import glyph_name

    while True:
        svg = Path(_path(rng)) if rng.random() < 0.8 else None
        png = Path(_path(rng)) if (svg is None or rng.random() < 0.3) else None
        cps = tuple(rng.choice([0x41, 0x1F600, 0x200D, 0xFE0F, 0x1F3FB, 0x23, 0x10FFFF]) for _ in range(rng.randint(0, 14)))
        name = glyph_name(cps) if cps else _s(rng, 1, 5).strip() or "n"
        # witness class K8: a path whose first character is a blank; CR/LF cannot occur in
        # a ninja-driven build
        if any(str(p)[0] in " \t" for p in (svg, png) if p is not None) or name[:1] in " \t":
            continue
        if any(ch in str(x) for x in (svg, png, name) if x is not None for ch in "\r\n"):
            continue
        return {"mapping": GlyphMapping(svg, png, cps, name)}


def csv_roundtrip(mapping):
    from nanoemoji import glyphmap

    return glyphmap.load_from(io.StringIO(mapping.csv_line() + "\n"))


# ---- file names -> codepoints


def gen_filename(rng):
    # (code points whose hex spelling starts with each hex letter, in particular with the
    # letters that also occur in the "emoji_u" prefix)
    seq = tuple(
        rng.choice([0x1F600, 0x1F3FB, 0x200D, 0xFE0F, 0x2198, 0x23, 0xA9, 0x1F468, 0x1F469, 0x42, 0x10FFFF, 0xABCDE, 0xE000, 0xE9, 0xE50A, 0xEFFFF, 0xEE, 0xE0041, 0xD7FF, 0xC5, 0xB6, 0xF8FF])
        for _ in range(rng.randint(1, 8))
    )
    style = rng.choice(["noto", "plain-", "plain_"])
    hexes = [("%04x" if rng.random() < 0.7 else "%x") % c for c in seq]
    if rng.random() < 0.3:
        hexes = [h.upper() for h in hexes]
    if style == "noto":
        name = "emoji_u" + "_".join(hexes) + ".svg"
    else:
        name = (style[-1]).join(hexes) + ".svg"
    return {"seq": seq, "filename": name}


def from_filename(seq, filename):
    from nanoemoji import codepoints

    return codepoints.from_filename(filename)


# ---- glyph names

_CPS = [0x67, 0x41, 0x7A, 0x30, 0x39, 0x1F600, 0x1F3FB, 0x200D, 0xFE0F, 0xA9, 0x2198, 0xE000, 0x10FFFF, 0x23, 0x2A, 0xABCDE, 0xE9, 0xC5, 0x3B1, 0x5B57, 0xAA, 0x5F, 0x2E, 0x0A, 0x0F, 0x61, 0x66, 0x00, 0x09, 0x10]


def name_token_problems():
    """the token lemma behind "names of distinct sequences are distinct and legal", over every
    code point (exhaustive): a token is made of ASCII letters and digits only (no '_', so a
    name splits back into its tokens), an ASCII letter is its own token, and no two code
    points share a token"""
    from nanoemoji.glyph import _name
    import string

    letters = set(string.ascii_letters)
    ok_chars = set(string.ascii_letters + string.digits)
    bad = []
    seen = {}
    for cp in range(0x110000):
        t = _name(cp)
        if not t or not set(t) <= ok_chars:
            bad.append(("illegal token", cp, t))
        if chr(cp) in letters and t != chr(cp):
            bad.append(("letter not kept", cp, t))
        if t in seen:
            bad.append(("two code points, one token", hex(seen[t]), hex(cp), t))
        seen.setdefault(t, cp)
        if len(bad) > 8:
            break
    return bad


def _f6_class(a, b):
    """known collision family: ('g',) + s  vs  s  where the name of s gets the g_ prefix"""
    for x, y in ((a, b), (b, a)):
        if len(x) == len(y) + 1 and x[0] == 0x67 and tuple(x[1:]) == tuple(y) and len(y) > 0:
            return True
    return False


def gen_seq_pair(rng):
    while True:
        n = rng.choice([1, 1, 2, 2, 3, 4, 15, 18])
        a = tuple(rng.choice(_CPS) for _ in range(n))
        r = rng.random()
        if r < 0.3:
            b = tuple(rng.choice(_CPS) for _ in range(rng.choice([1, 2, 3])))
        elif r < 0.6 and n > 1:
            b = a[1:]
        elif r < 0.8:
            b = a[:-1] + (rng.choice(_CPS),)
        else:
            b = (rng.choice(_CPS),) + a
        if not b or _f6_class(a, b):
            continue
        return {"a": a, "b": b}


def names_of_pair(a, b):
    from nanoemoji.glyph import glyph_name

    return (glyph_name(a), glyph_name(b))


def legal_glyph_name(n):
    return re.fullmatch(r"[A-Za-z_][A-Za-z0-9._]*", n) is not None and len(n) <= 63


# ---- feature file


def gen_sequences(rng):
    seqs = set()
    for _ in range(rng.randint(1, 6)):
        seqs.add(tuple(rng.choice([0x1F600, 0x1F3FB, 0x200D, 0x1F468, 0x1F469, 0x41, 0x2198]) for _ in range(rng.randint(1, 4))))
    return {"seqs": tuple(sorted(seqs))}


def fea_rules(seqs):
    from nanoemoji import features
    from fontTools.feaLib.parser import Parser

    text = features.generate_fea(seqs)
    rules = sorted(re.findall(r"^\s*sub (.*?) by (\S+);\s*$", text, flags=re.M))
    names = set()
    from nanoemoji.glyph import glyph_name

    for s in seqs:
        names.add(glyph_name(s))
        for c in s:
            names.add(glyph_name(c))
    try:
        Parser(io.StringIO(text), glyphNames=sorted(names)).parse()
        ok = True
    except Exception:  # noqa: BLE001
        ok = False
    return {"rules": rules, "parses": ok}


def fea_rules_expected(seqs):
    from nanoemoji.glyph import glyph_name

    return sorted((" ".join(glyph_name(c) for c in s), glyph_name(s)) for s in set(seqs) if len(s) > 1)


# ---- parts json


def gen_parts(rng):
    from nanoemoji.parts import ReusableParts
    from picosvg.geometric_types import Rect

    parts = ReusableParts(view_box=Rect(0, 0, rng.choice([100, 128, 1024]), rng.choice([100, 128])), reuse_tolerance=rng.choice([0.1, 0.5]))
    for _ in range(rng.randint(0, 4)):
        x, y, w, h = rng.randint(0, 40), rng.randint(0, 40), rng.randint(5, 40), rng.randint(5, 40)
        from nanoemoji.parts import as_shape
        from picosvg.svg_types import SVGPath

        parts._add(as_shape(SVGPath(d=f"M{x},{y} L{x + w},{y} L{x + w},{y + h} L{x},{y + h} Z")))
    parts.compute_donors()
    return {"parts": parts}


def parts_roundtrip(parts):
    from nanoemoji.parts import ReusableParts

    return ReusableParts.from_json(parts.to_json())


def parts_equal(a, b):
    return (
        a.version == b.version
        and tuple(a.view_box) == tuple(b.view_box)
        and a.reuse_tolerance == b.reuse_tolerance
        and {k: set(v) for k, v in a.shape_sets.items()} == {k: set(v) for k, v in b.shape_sets.items()}
        and dict(a._donor_cache) == dict(b._donor_cache)
    )


# ---- response files


def gen_argv(rng):
    args = []
    for _ in range(rng.randint(1, 5)):
        a = _s(rng, 1, 8, extra=['"', "$", "`", "*", "(", ";"]).replace("\t", " ")
        if a.startswith("@") or "\n" in a:
            continue
        args.append(a)
    return {"args": args or ["x"]}


def rsp_roundtrip(args):
    from nanoemoji import util

    with tempfile.TemporaryDirectory(prefix="verif_rsp_") as d:
        p = os.path.join(d, "args.rsp")
        with open(p, "w") as f:
            f.write(" ".join(util.shell_quote(a) for a in args))
        return util.expand_ninja_response_files(["@" + p])


# ---- variable-font configurations: axes and master positions through write -> load


def gen_masters(rng):
    tags = rng.sample(["wght", "opsz", "wdth", "slnt", "GRAD"], rng.choice([1, 2, 2, 3]))
    rng.shuffle(tags)  # declaration order need not be alphabetical
    axes = [(t, t.upper() + " axis", rng.choice([0, 14, 100, 400])) for t in tags]
    n = rng.randint(2, 3)
    masters = []
    for m in range(n):
        pos = {t: (d if m == 0 else d + rng.choice([1, 50, 300]) * (m + (i + 1) * 0.5)) for i, (t, _, d) in enumerate(axes)}
        masters.append(("m%d" % m, "Style%d" % m, pos))
    # source file names: legal names with characters that mean something to glob / TOML / the
    # shell (every master has the same names, as a variable build requires)
    pool = ["emoji_u1f601[1].svg", "emoji_u1f602 copy.svg", "emoji_u1f603?.svg", "emoji_u1f604{a,b}.svg", "emoji_u1f605#x.svg", "emoji_u1f606'q'.svg", "emoji_u1f607=.svg", "emoji_u1f608!.svg", "u1f609.svg"]
    files = ["emoji_u1f600.svg"] + rng.sample(pool, rng.randint(0, 3))
    return {"axes": axes, "masters": masters, "files": files, "explicit": rng.random() < 0.5, "derived_too": False}


def k11_witness():
    return {"axes": [("wght", "Weight", 400)], "masters": [("thin", "Thin", {"wght": 100}), ("regular", "Regular", {"wght": 400})], "files": ["emoji_u1f600.svg"], "explicit": False, "derived_too": True}


def masters_round_trip(axes, masters, files=("emoji_u1f600.svg",), explicit=False, derived_too=False):
    from nanoemoji import config as C

    with tempfile.TemporaryDirectory(prefix="verif_cfg_") as d:
        toml_text = 'output_file = "VF.ttf"\ncolor_format = "glyf_colr_1"\n'
        for tag, name, default in axes:
            toml_text += f'[axis.{tag}]\nname = "{name}"\ndefault = {default}\n'
        for name, style, pos in masters:
            os.makedirs(os.path.join(d, name))
            for fn in files:
                open(os.path.join(d, name, fn), "w").write("<svg/>")
            # given by a pattern, or each file by its literal name
            srcs_toml = ", ".join("'" + f"{name}/{fn}" + "'" if "'" not in fn else '"' + f"{name}/{fn}" + '"' for fn in files) if explicit else f'"{name}/*.svg"'
            toml_text += f'[master.{name}]\nstyle_name = "{style}"\nsrcs = [{srcs_toml}]\n[master.{name}.position]\n'
            for tag, v in pos.items():
                toml_text += f"{tag} = {v}\n"
        p = Path(d) / "c.toml"
        p.write_text(toml_text)
        _flags_reset()
        first = C.load(p)
        p2 = Path(d) / "resolved.toml"
        C.write(p2, first)
        second = C.load(p2)
        # the configuration the driver writes for the step that builds one master's UFO
        # (nanoemoji.write_ufo_build): this master only, output_file = the master's UFO
        ufo_diffs = []
        for m in first.masters:
            uc = first._replace(output_file=m.output_ufo, masters=(m,))
            p3 = Path(d) / "ufo.toml"
            C.write(p3, uc)
            back = C.load(p3)
            for fld in uc._fields:
                a_, b_ = getattr(uc, fld), getattr(back, fld)
                if fld == "masters":
                    # (output_ufo is derived from output_file on load: compared only on request)
                    strip = (lambda ms: [mm._replace(output_ufo="") for mm in ms]) if not derived_too else (lambda ms: list(ms))
                    a_, b_ = strip(a_), strip(b_)
                if _norm(fld, a_) != _norm(fld, b_):
                    ufo_diffs.append((m.name, fld, str(a_)[:120], str(b_)[:120]))
    sem = lambda c: (
        sorted((a.axisTag, a.name, a.default) for a in c.axes),
        [(m.name, m.style_name, sorted((ap.axisTag, ap.position) for ap in m.position)) for m in c.masters],
    )
    given = (
        sorted((t, n, float(dflt)) for t, n, dflt in axes),
        [(n, s, sorted((t, float(v)) for t, v in pos.items())) for n, s, pos in masters],
    )
    as_float = lambda s_: (sorted((t, n, float(dflt)) for t, n, dflt in s_[0]), [(n, s, sorted((t, float(v)) for t, v in pos)) for n, s, pos in s_[1]])
    want_sources = [sorted(os.path.join(os.path.realpath(d), n, fn) for fn in files) for n, _, _ in masters]
    real = lambda c: [sorted(os.path.realpath(str(p_)) for p_ in m.sources) for m in c.masters]
    return {
        "loaded_is_what_was_written": as_float(sem(first)) == given,
        "reloaded_equals_loaded": sem(first) == sem(second),
        "default_master": first.default().name == second.default().name,
        # every source file, whatever its (legal) name, is a source after the first load and
        # still after the hand-off through the resolved TOML
        "sources_first": real(first) == want_sources,
        "ufo_config_diffs": ufo_diffs,
        "sources_reloaded": [list(map(str, m.sources)) for m in first.masters] == [list(map(str, m.sources)) for m in second.masters] and first.source_names == second.source_names,
    }
