"""write_font.py clip boxes -- C05."""
from vlib import *
import spec
from math import floor
from c_common import AFF

R4 = TupleOf(Real, Real, Real, Real)


@contract("nanoemoji.write_font._quantize_bounding_rect", props=["C05"])
class quantize_bounding_rect:
    args = {"xMin": Int, "yMin": Int, "xMax": Int, "yMax": Int, "factor": Int}
    returns = TupleOf(Int, Int, Int, Int)
    raises = {"AssertionError": lambda factor: factor < 1}
    ensures = {
        # box edges are multiples of the quantisation step ...
        "multiples": lambda factor, result: all(v % factor == 0 for v in result),
        # ... and the quantised box contains the input box, by less than one step
        "contains-min": lambda xMin, yMin, factor, result: result[0] <= xMin and xMin < result[0] + factor and result[1] <= yMin and yMin < result[1] + factor,
        "contains-max": lambda xMax, yMax, factor, result: result[2] >= xMax and xMax > result[2] - factor and result[3] >= yMax and yMax > result[3] - factor,
    }
    native_requires = lambda factor, xMin, yMin, xMax, yMax: factor < 2 ** 20 and max(abs(xMin), abs(yMin), abs(xMax), abs(yMax)) < 2 ** 31


@lemma("L-quant", props=["C05"])
class L_quant:
    """integer v, integer step q >= 1, f = floor(v / q) (real quotient):  f*q <= v < f*q + q"""

    args = {"v": Int, "q": Int, "f": Int}
    requires = [lambda v, q, f: q >= 1 and f <= v / q and v / q < f + 1]
    statement = lambda v, q, f: f * q <= v and v < f * q + q


@lemma("L-round", props=["C05"])
class L_round:
    """compiled control points are otRound(p); under the placing affine T they move by at
    most half a unit times the row sums of |T|'s linear part"""

    args = {"T": TupleOf(Real, Real, Real, Real, Real, Real), "p": TupleOf(Real, Real), "q": TupleOf(Real, Real)}
    requires = [lambda p, q: abs(q[0] - p[0]) <= 1 / 2 and abs(q[1] - p[1]) <= 1 / 2]
    statement = lambda T, p, q: (
        abs(spec.pt(T, q)[0] - spec.pt(T, p)[0]) <= (abs(T[0]) + abs(T[2])) / 2
        and abs(spec.pt(T, q)[1] - spec.pt(T, p)[1]) <= (abs(T[1]) + abs(T[3])) / 2
    )


@lemma("C05-protrusion", props=["C05"])
class L_protrusion:
    """A point p of a source outline, placed by T, lies in the un-rounded union box B (that
    is what _transformed_glyph_bounds measures).  The clip box C contains otRound(B) (contract
    of _bounds), so |C-edge - B-edge| <= 1/2 outward-or-inward.  The compiled point
    q = otRound(p) under T therefore protrudes beyond C by at most
    1/2 * max(|a|+|c|, |b|+|d|) + 1/2  -- 'the coordinate-rounding error scaled by the
    transform that places them (a unit or two)'."""

    args = {
        "T": TupleOf(Real, Real, Real, Real, Real, Real),
        "p": TupleOf(Real, Real),
        "q": TupleOf(Real, Real),
        "B": TupleOf(Real, Real, Real, Real),
        "C": TupleOf(Int, Int, Int, Int),
    }
    requires = [
        lambda T, p, q, B, C: abs(q[0] - p[0]) <= 1 / 2
        and abs(q[1] - p[1]) <= 1 / 2
        and B[0] <= spec.pt(T, p)[0] and spec.pt(T, p)[0] <= B[2]
        and B[1] <= spec.pt(T, p)[1] and spec.pt(T, p)[1] <= B[3]
        # the clip box contains the rounded bounds
        and C[0] <= B[0] + 1 / 2 and C[1] <= B[1] + 1 / 2 and C[2] >= B[2] - 1 / 2 and C[3] >= B[3] - 1 / 2
    ]
    statement = lambda T, p, q, B, C: (
        spec.pt(T, q)[0] >= C[0] - (abs(T[0]) + abs(T[2])) / 2 - 1 / 2
        and spec.pt(T, q)[0] <= C[2] + (abs(T[0]) + abs(T[2])) / 2 + 1 / 2
        and spec.pt(T, q)[1] >= C[1] - (abs(T[1]) + abs(T[3])) / 2 - 1 / 2
        and spec.pt(T, q)[1] <= C[3] + (abs(T[1]) + abs(T[3])) / 2 + 1 / 2
    )


# ---------------------------------------------------------------------------- _bounds
# finite scope over paint-tree shapes; the glyph bounding boxes and the number of leaves
# per shape are symbolic.


@contract("nanoemoji.write_font._transformed_glyph_bounds", props=["C05"])
class transformed_glyph_bounds:
    # fontTools pens over a ufo glyph: outside the proved subset.  Assumed at call sites;
    # the bounded tier checks it against an independent RecordingPen computation.
    assumed = True
    args = {"ufo": Opaque("ufo"), "glyph_name": Str, "transform": AFF}
    returns = Optional_(TupleOf(Real, Real, Real, Real))
    ensures = {
        "well-formed": lambda result: isnone(result) or (result[0] <= result[2] and result[1] <= result[3]),
    }
    native = False
    note = "control bounds of the named ufo glyph under `transform` (fontTools ControlBoundsPen/TransformPen); None iff the glyph draws nothing -- conformance-checked natively by transformed_glyph_bounds_conformance below"


SOLID = Record("nanoemoji.paint.PaintSolid", color=Record("nanoemoji.colors.Color"))
PG = Record("nanoemoji.paint.PaintGlyph", glyph=Str, paint=SOLID)
_TRANSL = Record("nanoemoji.paint.PaintTranslate", paint=PG, dx=Real, dy=Real)
_XFORM = Record("nanoemoji.paint.PaintTransform", paint=PG, transform=TupleOf(Real, Real, Real, Real, Real, Real))
_LAYERS2 = Record("nanoemoji.paint.PaintColrLayers", layers=TupleOf(PG, _TRANSL))
_COMP = Record(
    "nanoemoji.paint.PaintComposite",
    mode=Const(5),
    source=Record("nanoemoji.paint.PaintColrLayers", layers=TupleOf(PG, PG)),
    backdrop=SOLID,
)
_TRANSL_LAYERS = Record(
    "nanoemoji.paint.PaintTranslate",
    paint=Record("nanoemoji.paint.PaintColrLayers", layers=TupleOf(PG, PG)),
    dx=Real,
    dy=Real,
)
_ROOT = OneOf(PG, _TRANSL, _XFORM, _LAYERS2, _COMP, _TRANSL_LAYERS)


def _boxes(calls):
    return [c.result for c in calls.get("nanoemoji.write_font._transformed_glyph_bounds", [])]


def _ot(v):
    # fontTools otRound
    return int(floor(v + 0.5))


def _contains(box, b):
    return box[0] <= _ot(b[0]) and box[1] <= _ot(b[1]) and box[2] >= _ot(b[2]) and box[3] >= _ot(b[3])


@contract("nanoemoji.write_font._bounds", props=["C05"])
class bounds:
    scope = "finite: 0..2 root paints drawn from 6 tree shapes (glyph, translated glyph, matrix-transformed glyph, 2 layers, group-opacity composite, translated layer list); glyph boxes, transforms and the quantisation step are unconstrained"
    args = {
        "color_glyph": OneOf(
            Obj(painted_layers=TupleOf(), ufo=Opaque("ufo")),
            Obj(painted_layers=TupleOf(_ROOT), ufo=Opaque("ufo")),
            Obj(painted_layers=TupleOf(_ROOT, _ROOT), ufo=Opaque("ufo")),
        ),
        "quantize_factor": Int,
    }
    requires = [lambda quantize_factor: quantize_factor >= 1]
    ensures = {
        # a glyph that paints nothing has no clip box
        "none-iff-nothing-painted": lambda result, calls: iff(isnone(result), all(isnone(b) for b in _boxes(calls))),
        # the box contains the (otRound-ed) bounds of every placed shape
        "contains-every-shape": lambda result, calls: isnone(result) or all(isnone(b) or _contains(result, b) for b in _boxes(calls)),
        "edges-are-multiples-of-the-step": lambda result, quantize_factor: isnone(result)
        or quantize_factor <= 1
        or all(v % quantize_factor == 0 for v in result),
        "tight-to-one-step": lambda result, quantize_factor, calls: isnone(result)
        or (
            any((not isnone(b)) and result[0] > _ot(b[0]) - quantize_factor for b in _boxes(calls))
            and any((not isnone(b)) and result[2] < _ot(b[2]) + quantize_factor for b in _boxes(calls))
        ),
        # every PaintGlyph leaf is measured, under its accumulated transform
        "every-leaf-measured": lambda color_glyph, calls: len(_boxes(calls)) == sum(_n_leaves(r) for r in color_glyph.painted_layers),
        "leaf-transform": lambda color_glyph, calls: _leaf_transforms_ok(color_glyph, calls),
    }
    native = False


def _n_leaves(p):
    k = kind(p)
    return (
        1
        if k == "PaintGlyph"
        else (
            sum(_n_leaves(x) for x in p.layers)
            if k == "PaintColrLayers"
            else (_n_leaves(p.source) + _n_leaves(p.backdrop) if k == "PaintComposite" else (_n_leaves(p.paint) if k in spec.TRANSFORM_KINDS else 0))
        )
    )


def _leaf_transforms_ok(color_glyph, calls):
    """each leaf is measured under the affine COLR semantics gives it (spec.leaves), in
    z-order"""
    cs = calls.get("nanoemoji.write_font._transformed_glyph_bounds", [])
    want = [x for r in color_glyph.painted_layers for x in spec.leaves(r)]
    return [(c.args.glyph_name, spec.aff(c.args.transform)) for c in cs] == want


# ---- native conformance of the assumed summary of _transformed_glyph_bounds ------------------


def _gen_glyph_and_affine(rng, i=None):
    import math

    pts = [(rng.randint(-200, 900), rng.randint(-200, 900)) for _ in range(rng.randint(3, 6))]
    kind = ["identity", "translate", "unit-diagonal", "scale", "rotate", "general", "flip", "unit-diagonal"][(i if i is not None else rng.randrange(8)) % 8]
    e, f = rng.randint(-300, 300), rng.randint(-300, 300)
    if kind == "identity":
        m = (1, 0, 0, 1, 0, 0)
    elif kind == "translate":
        m = (1, 0, 0, 1, e, f)
    elif kind == "unit-diagonal":
        # a == d == 1 but not a translation (rotation by t scaled by 1/cos t, or a shear)
        b = rng.choice([1, 0.5, -0.5, 0.25])
        m = (1, b, rng.choice([-b, 0, b]), 1, e, f)
    elif kind == "scale":
        m = (rng.choice([0.5, 2, 1]), 0, 0, rng.choice([0.5, 1, 3]), e, f)
    elif kind == "rotate":
        t = math.radians(rng.choice([30, 45, 90, 200]))
        m = (math.cos(t), math.sin(t), -math.sin(t), math.cos(t), e, f)
    elif kind == "flip":
        m = (-1, 0, 0, 1, e, f)
    else:
        m = (rng.uniform(-2, 2), rng.uniform(-2, 2), rng.uniform(-2, 2), rng.uniform(-2, 2), e, f)
    return {"pts": pts, "m": m, "empty": rng.random() < 0.1}


def _bounds_of_drawn_glyph(pts, m, empty):
    import ufoLib2
    from picosvg.svg_transform import Affine2D
    from nanoemoji import write_font

    ufo = ufoLib2.Font()
    g = ufo.newGlyph("g")
    if not empty:
        pen = g.getPen()
        pen.moveTo(pts[0])
        for p in pts[1:]:
            pen.lineTo(p)
        pen.closePath()
    return write_font._transformed_glyph_bounds(ufo, "g", Affine2D(*m))


def _expected_bounds(pts, m, empty):
    if empty:
        return None
    a, b, c, d, e, f = m
    q = [(a * x + c * y + e, b * x + d * y + f) for x, y in pts]
    return (min(p[0] for p in q), min(p[1] for p in q), max(p[0] for p in q), max(p[1] for p in q))


@contract("nanoemoji.write_font._transformed_glyph_bounds", props=["C05", "C01"])
class transformed_glyph_bounds_conformance:
    """the summary assumed above, checked against an independent computation: the box of the
    glyph's points mapped through the WHOLE affine (also when its diagonal is (1, 1))"""

    bounded_only = True
    gen = _gen_glyph_and_affine
    native_call = _bounds_of_drawn_glyph
    n_quick = 64
    n_thorough = 2000
    ensures = {
        "box-of-the-transformed-outline": lambda pts, m, empty, result: (result is None) == (_expected_bounds(pts, m, empty) is None)
        and (result is None or all(abs(u - v) <= 1e-6 * (1 + abs(v)) for u, v in zip(result, _expected_bounds(pts, m, empty)))),
    }
