"""nanoemoji.py driver: several configurations in one invocation (C20, C08)."""
from vlib import *
import buildgraph_helpers as G


@contract("nanoemoji.nanoemoji._run", props=["C20"])
class multi_config_build_graph:
    bounded_only = True
    gen = G.gen_pair
    native_call = G.run_driver
    n_quick = 10
    n_thorough = 150
    ensures = {
        # each font is the one its own configuration would produce alone: the files its font
        # edge reads exist, are built with that configuration's variables, no two edges share
        # an output, the combined part file's inputs agree, and every file a step reads
        # (config, features, glyph map, part file) is a declared input of its edge, so that
        # a re-run in a used build directory rebuilds the font when an option changed
        "each-configuration-gets-its-own-intermediates": lambda a, b, result: G.graph_problems(a, b, result) == [],
    }
    known_witnesses = {
        "F4": lambda: G.witness("F4"),
        "F8": lambda: G.witness("F8"),
        "F10": lambda: G.witness("F10"),
    }


@contract("nanoemoji.nanoemoji._run", props=["C20"])
class multi_config_same_basename:
    bounded_only = True
    gen = G.gen_same_basename
    native_call = G.run_driver_n
    n_quick = 6
    n_thorough = 60
    ensures = {
        # two to four configurations, each with its own file of one basename in its own
        # directory: every configuration's glyph map is built from its own sources
        "each-configuration-builds-from-its-own-sources": lambda cfgs, result: G.own_source_problems(cfgs, result) == [],
    }


@contract("nanoemoji.nanoemoji._run", props=["C20", "C14"])
class cli_bitmap_resolution:
    bounded_only = True
    gen = G.gen_cli_bitmaps
    native_call = G.run_cli_bitmaps
    n_quick = 4
    n_thorough = 16
    ensures = {
        # through the real CLI (its resvg step): bitmap_resolution, given by flag or file, is the
        # pixel height of every bitmap, whatever the viewBox's aspect, and fixes the strike ppem
        "resolution-is-the-bitmap-height-and-fixes-ppem": lambda fmt, viewbox, res, by_flag, result: G.cli_bitmap_problems(fmt, viewbox, res, by_flag, result) == [],
    }


@contract("nanoemoji.write_variable_font.main", props=["C07", "C20"])
class variable_font_post_format:
    bounded_only = True
    gen = G.gen_vf
    native_call = G.run_vf
    n_quick = 4
    n_thorough = 4
    ensures = {
        # keep_glyph_names reaches the post table of a variable build as well: format 3 unless
        # names were requested (C07 speaks of TrueType-flavoured fonts: for CFF2 output only the
        # "no names unless requested" half is demanded)
        "post-format-follows-keep-glyph-names": lambda keep_names, otf, result: result["exit"] == 0
        and result.get("has_fvar") is True
        and (result.get("post") == (2.0 if keep_names else 3.0) or (otf and keep_names)),
        # the output file name decides the outline flavour, for variable fonts too
        "outline-flavour-follows-the-output-file": lambda otf, result: result.get("outlines") == (["CFF2"] if otf else ["glyf"]),
    }
