"""write_font COLRv0 layers -- C03."""
from vlib import *
import spec
from c_common import AFF

COLOR = Record("nanoemoji.colors.Color")
SOLID = Record("nanoemoji.paint.PaintSolid", color=COLOR)
PG = Record("nanoemoji.paint.PaintGlyph", glyph=Str, paint=SOLID)
R6 = TupleOf(Real, Real, Real, Real, Real, Real)
_TRANSL = Record("nanoemoji.paint.PaintTranslate", paint=PG, dx=Real, dy=Real)
_XFORM = Record("nanoemoji.paint.PaintTransform", paint=PG, transform=R6)
_LAYERS2 = Record("nanoemoji.paint.PaintColrLayers", layers=TupleOf(PG, _XFORM))
_ROOT = OneOf(PG, _TRANSL, _XFORM, _LAYERS2)


@contract("nanoemoji.write_font._create_transformed_glyph", props=["C03"])
class create_transformed_glyph:
    assumed = True  # ufoLib2 glyph with one component: exercised by the end-to-end COLRv0 / glyf picture and outline checks (bounded tier)
    args = {"color_glyph": Opaque("ColorGlyph"), "paint": PG, "transform": AFF}
    returns = Obj(name=Str)
    ensures = {
        "one-component": lambda paint, transform, result: result.name
        == ufn("component_glyph_name", "str", paint.glyph, spec.aff(transform))
    }
    native = False
    note = "creates a glyph holding exactly one component (paint.glyph, transform)"


# ---- the real _create_transformed_glyph, with ufoLib2's constructors summarised ----


@contract("ufoLib2.objects.Component", props=["C03"], dep=True)
class ufo_component_ctor:
    assumed = True
    args = {"baseGlyph": Str, "transformation": Opaque("any")}
    returns = lambda baseGlyph, transformation: Obj(baseGlyph=baseGlyph, transformation=transformation)
    ensures = {}
    native = False
    note = "ufoLib2 Component(baseGlyph=..., transformation=...): keeps its keyword arguments (the transformation is read as six numbers xx, xy, yx, yy, dx, dy -- fontTools Transform order, the order of picosvg's Affine2D)"


@contract("nanoemoji.write_font._init_glyph", props=["C03"])
class init_glyph_stub:
    assumed = True
    args = {"color_glyph": Opaque("any")}
    returns = lambda: Obj(name=Str, components=Const([]), width=Int)
    ensures = {}
    native = False
    note = "a new, empty glyph under a fresh name in the colour glyph's UFO (names: bounded tier)"


@contract("nanoemoji.write_font._create_transformed_glyph", props=["C03"])
class create_transformed_glyph_real:
    """the glyph made for a transformed COLRv0 / glyf layer holds exactly one component: the
    layer's outline glyph under exactly the accumulated transform, all six numbers"""

    args = {"color_glyph": Obj(ufo=Obj(glyphOrder=Const([]))), "paint": PG, "transform": AFF}
    ensures = {
        "one-component-of-the-outline-glyph": lambda paint, result: len(result.components) == 1 and result.components[0].baseGlyph == paint.glyph,
        "placed-by-the-whole-transform": lambda transform, result: spec.aff(result.components[0].transformation) == spec.aff(transform),
        "appended-to-the-glyph-order": lambda color_glyph, result: [n for n in color_glyph.ufo.glyphOrder] == [result.name],
    }
    native = False


def _expected_name(leaf):
    g, T = leaf
    return g if T == spec.ID else ufn("component_glyph_name", "str", g, T)


def _first_colors(root):
    k = kind(root)
    return (
        [root.paint.color]
        if k == "PaintGlyph"
        else ([c for x in root.layers for c in _first_colors(x)] if k == "PaintColrLayers" else _first_colors(root.paint))
    )


@contract("nanoemoji.write_font._colr0_layers", props=["C03", "C15"])
class colr0_layers:
    scope = "finite: 4 paint-tree shapes (glyph, translated glyph, matrix-transformed glyph, layer list of a glyph and a transformed glyph); names, colours, transforms, palette unconstrained"
    args = {"color_glyph": Obj(ufo=Opaque("ufo")), "root": _ROOT, "palette": SeqOf(COLOR)}
    may_raise = ("ValueError",)  # a colour missing from the palette is an error, never a wrong index
    ensures = {
        # one layer per PaintGlyph leaf, in z-order
        "one-layer-per-shape": lambda root, result: len(result) == len(spec.leaves(root)),
        # an untransformed leaf is referenced directly; a transformed one through a glyph that
        # holds exactly one component (leaf glyph, accumulated COLR-semantics transform)
        "layer-glyphs": lambda root, result: [r[0] for r in result] == [_expected_name(l) for l in spec.leaves(root)],
        # COLRv0: the palette entry carries colour AND alpha (the non-opaque colour is looked up)
        "layer-colours": lambda root, palette, result: all(
            (r[1] == 0xFFFF and (c.red, c.green, c.blue) == (-1, -1, -1)) or (0 <= r[1] and r[1] < len(palette) and palette[r[1]] == c)
            for (r, c) in zip(result, _first_colors(root))
        ),
    }
    native = False
