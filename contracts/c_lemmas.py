"""Specification-level lemmas (pure real arithmetic; no code involved).  They connect what
the function contracts establish (geometry mapped by an affine) with what the properties
state (same colour at corresponding points, no protrusion beyond the clip box ...)."""
from vlib import *
import spec

R6 = TupleOf(Real, Real, Real, Real, Real, Real)
P2 = TupleOf(Real, Real)


def cross(u, v):
    return u[0] * v[1] - u[1] * v[0]


def sub2(p, q):
    return (p[0] - q[0], p[1] - q[1])


def dist2(p, q):
    return (p[0] - q[0]) * (p[0] - q[0]) + (p[1] - q[1]) * (p[1] - q[1])


@lemma("L-lin", props=["C16", "C01", "C02", "C13"])
class L_lin:
    """COLR three-point linear gradient is affine-covariant.  The gradient parameter of x is
    t(x) = cross(x-p0, p2-p0) / cross(p1-p0, p2-p0); mapping p0,p1,p2 and x by the same
    invertible affine keeps t (stated cross-multiplied so that no division is needed)."""

    args = {"T": R6, "p0": P2, "p1": P2, "p2": P2, "x": P2}
    statement = lambda T, p0, p1, p2, x: (
        cross(sub2(spec.pt(T, x), spec.pt(T, p0)), sub2(spec.pt(T, p2), spec.pt(T, p0))) * cross(sub2(p1, p0), sub2(p2, p0))
        == cross(sub2(x, p0), sub2(p2, p0)) * cross(sub2(spec.pt(T, p1), spec.pt(T, p0)), sub2(spec.pt(T, p2), spec.pt(T, p0)))
    )


@lemma("L-lin-nondegenerate", props=["C16", "C01"])
class L_lin_nd:
    """... and an invertible affine keeps the gradient well formed (denominator non-zero)."""

    args = {"T": R6, "p0": P2, "p1": P2, "p2": P2}
    requires = [lambda T, p0, p1, p2: spec.det(T) != 0 and cross(sub2(p1, p0), sub2(p2, p0)) != 0]
    statement = lambda T, p0, p1, p2: cross(sub2(spec.pt(T, p1), spec.pt(T, p0)), sub2(spec.pt(T, p2), spec.pt(T, p0))) != 0


@lemma("L-rad", props=["C16", "C01", "C02", "C13"])
class L_rad:
    """A radial gradient whose circles are mapped by a uniform similarity U=[s,0,0,+-s,tx,ty]
    (s>0) with radii scaled by s has, at U x, the parameter the original has at x: for every
    t, x lies on circle(t) of the original iff U x lies on circle(t) of the mapped one."""

    args = {"s": Real, "sigma": Real, "tx": Real, "ty": Real, "c0": P2, "c1": P2, "r0": Real, "r1": Real, "x": P2, "t": Real}
    requires = [lambda s, sigma: s > 0 and (sigma == 1 or sigma == -1)]
    statement = lambda s, sigma, tx, ty, c0, c1, r0, r1, x, t: iff(
        dist2(x, (c0[0] + t * (c1[0] - c0[0]), c0[1] + t * (c1[1] - c0[1]))) == (r0 + t * (r1 - r0)) * (r0 + t * (r1 - r0)),
        dist2(
            spec.pt((s, 0, 0, sigma * s, tx, ty), x),
            (
                spec.pt((s, 0, 0, sigma * s, tx, ty), c0)[0] + t * (spec.pt((s, 0, 0, sigma * s, tx, ty), c1)[0] - spec.pt((s, 0, 0, sigma * s, tx, ty), c0)[0]),
                spec.pt((s, 0, 0, sigma * s, tx, ty), c0)[1] + t * (spec.pt((s, 0, 0, sigma * s, tx, ty), c1)[1] - spec.pt((s, 0, 0, sigma * s, tx, ty), c0)[1]),
            ),
        )
        == (s * r0 + t * (s * r1 - s * r0)) * (s * r0 + t * (s * r1 - s * r0)),
    )


@lemma("L-aff-compose", props=["C16", "C01", "C02", "C06", "C13"])
class L_aff_compose:
    """ltr(A, B) applies A first: ltr(A,B)(p) = B(A(p))."""

    args = {"A": R6, "B": R6, "p": P2}
    statement = lambda A, B, p: spec.pt(spec.ltr(A, B), p) == spec.pt(B, spec.pt(A, p))


@lemma("L-aff-conjugate", props=["C02", "C13"])
class L_aff_conj:
    """(U T U^-1)(U p) = U(T p) for any Ui with Ui o U = id."""

    args = {"U": R6, "Ui": R6, "T": R6, "p": P2}
    requires = [lambda U, Ui: spec.mul(Ui, U) == spec.ID]
    statement = lambda U, Ui, T, p: spec.pt(spec.mul(U, spec.mul(T, Ui)), spec.pt(U, p)) == spec.pt(U, spec.pt(T, p))


@lemma("L-reuse-cancel", props=["C01", "C06", "C16"])
class L_reuse_cancel:
    """A reused glyph is drawn through the reuse affine A.  A gradient that was placed by W is
    pre-multiplied by A^-1 (T = 'W then A^-1'); drawn through A it is placed by W again."""

    args = {"A": R6, "Ai": R6, "W": R6, "p": P2}
    requires = [lambda A, Ai: spec.mul(A, Ai) == spec.ID]
    statement = lambda A, Ai, W, p: spec.pt(A, spec.pt(spec.ltr(W, Ai), p)) == spec.pt(W, p)
