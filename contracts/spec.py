"""Specification functions, written from the property statements and the OpenType / SVG
specifications -- never copied from nanoemoji.  Restricted Python (conditional expressions
instead of symbolic if-statements) so that the prover can interpret it and the native
harness can import it.

Affine maps at specification level are 6-tuples (a, b, c, d, e, f) meaning
x' = a x + c y + e ;  y' = b x + d y + f   (the SVG / OpenType matrix convention).
"""
from math import sin, cos, tan, radians
from vlib import kind

ID = (1, 0, 0, 1, 0, 0)


def aff(t):
    """6-tuple of anything that iterates as six numbers (picosvg Affine2D, tuples)"""
    a, b, c, d, e, f = t
    return (a, b, c, d, e, f)


def mul(A, B):
    """A o B : apply B first, then A"""
    a1, b1, c1, d1, e1, f1 = A
    a2, b2, c2, d2, e2, f2 = B
    return (
        a1 * a2 + c1 * b2,
        b1 * a2 + d1 * b2,
        a1 * c2 + c1 * d2,
        b1 * c2 + d1 * d2,
        a1 * e2 + c1 * f2 + e1,
        b1 * e2 + d1 * f2 + f1,
    )


def ltr(*ts):
    """apply ts[0] first, then ts[1], ..."""
    r = ID
    for t in ts:
        r = mul(t, r)
    return r


def pt(A, p):
    a, b, c, d, e, f = A
    x, y = p
    return (a * x + c * y + e, b * x + d * y + f)


def vec(A, p):
    a, b, c, d, e, f = A
    x, y = p
    return (a * x + c * y, b * x + d * y)


def det(A):
    return A[0] * A[3] - A[1] * A[2]


def translate(x, y):
    return (1, 0, 0, 1, x, y)


def scale(sx, sy):
    return (sx, 0, 0, sy, 0, 0)


def around(center, m):
    """T(c) o m o T(-c)"""
    return mul(translate(center[0], center[1]), mul(m, translate(-center[0], -center[1])))


def ot_transform(p):
    """The affine a COLRv1 transform paint denotes (OpenType 1.9 COLR, formats 12-31);
    identity for every other paint."""
    k = kind(p)
    if k == "PaintTransform":
        return aff(p.transform)
    if k == "PaintTranslate":
        return translate(p.dx, p.dy)
    if k == "PaintScale":
        return scale(p.scaleX, p.scaleY)
    if k == "PaintScaleAroundCenter":
        return around(p.center, scale(p.scaleX, p.scaleY))
    if k == "PaintScaleUniform":
        return scale(p.scale, p.scale)
    if k == "PaintScaleUniformAroundCenter":
        return around(p.center, scale(p.scale, p.scale))
    if k == "PaintRotate":
        return rot(p.angle)
    if k == "PaintRotateAroundCenter":
        return around(p.center, rot(p.angle))
    if k == "PaintSkew":
        return skew(p.xSkewAngle, p.ySkewAngle)
    if k == "PaintSkewAroundCenter":
        return around(p.center, skew(p.xSkewAngle, p.ySkewAngle))
    return ID


def rot(deg):
    a = radians(deg)
    return (cos(a), sin(a), -sin(a), cos(a), 0, 0)


def skew(xdeg, ydeg):
    return (1, tan(radians(ydeg)), -tan(radians(xdeg)), 1, 0, 0)


TRANSFORM_KINDS = (
    "PaintTransform",
    "PaintTranslate",
    "PaintScale",
    "PaintScaleAroundCenter",
    "PaintScaleUniform",
    "PaintScaleUniformAroundCenter",
    "PaintRotate",
    "PaintRotateAroundCenter",
    "PaintSkew",
    "PaintSkewAroundCenter",
)

# OpenType field ranges
INT16_MIN = -32768
INT16_MAX = 32767
UINT16_MAX = 65535
F2DOT14_MIN = -2
F2DOT14_MAX = 2 - 1 / 16384
FIXED_MIN = -32768
FIXED_MAX = 32768 - 1 / 65536


def in_int16(v):
    return INT16_MIN <= v and v <= INT16_MAX


def in_f2dot14(v):
    return F2DOT14_MIN <= v and v <= F2DOT14_MAX


def in_fixed(v):
    return FIXED_MIN <= v and v <= FIXED_MAX


# ---------------------------------------------------------------------------- ghost: a wrapped paint
from typing import NamedTuple, Any


class Wrapped(NamedTuple):
    """ghost summary of `transformed(M, paint)`: `paint` drawn through the affine `m`"""

    paint: Any
    m: Any


def placed(p):
    """(affine, inner paint) of a paint that may be wrapped in one transform paint"""
    k = kind(p)
    if k == "Wrapped":
        return (p.m, p.paint)
    if k in TRANSFORM_KINDS:
        return (ot_transform(p), p.paint)
    return (ID, p)


def leaves(p, T=ID):
    """(glyph, accumulated affine) of every PaintGlyph leaf, left to right.  COLR semantics:
    a transform paint's own affine is applied first, then its ancestors'."""
    k = kind(p)
    if k == "PaintGlyph":
        return [(p.glyph, T)]
    if k == "PaintColrLayers":
        return [x for c in p.layers for x in leaves(c, T)]
    if k == "PaintComposite":
        return leaves(p.source, T) + leaves(p.backdrop, T)
    if k in TRANSFORM_KINDS:
        return leaves(p.paint, mul(T, ot_transform(p)))
    return []


class GhostPath(NamedTuple):
    """stand-in for picosvg SVGPath: only the path data and what transforming it yields
    (an uninterpreted function of the data and the affine) matter to nanoemoji's logic"""

    d: Any

    def apply_transform(self, transform):
        from vlib import ufn

        return GhostPath(ufn("svgpath_apply_transform", "str", self.d, tuple(transform)))


def net(p):
    """(accumulated affine, innermost paint) through any chain of wrapping transforms"""
    k = kind(p)
    if k == "Wrapped":
        inner = net(p.paint)
        return (mul(p.m, inner[0]), inner[1])
    if k in TRANSFORM_KINDS:
        inner = net(p.paint)
        return (mul(ot_transform(p), inner[0]), inner[1])
    return (ID, p)


# ---------------------------------------------------------------------------- ghost UFO


class GhostGlyph:
    def __init__(self, name):
        self.name = name
        self.unicodes = []
        self.width = 0


class GhostInfo:
    pass


class GhostUfo:
    """stand-in for ufoLib2.Font: font info attributes, lib dict, glyph order, glyphs"""

    def __init__(self):
        self.info = GhostInfo()
        self.lib = {}
        self.glyphOrder = []
        self.glyphs = {}

    def newGlyph(self, name):
        g = GhostGlyph(name)
        self.glyphs[name] = g
        return g


class GhostFont:
    """stand-in for ttLib.TTFont where only the table mapping and glyph names matter"""

    def __init__(self, names, tables):
        self.names = names
        self.tables = tables

    def __setitem__(self, tag, table):
        self.tables[tag] = table

    def __getitem__(self, tag):
        return self.tables[tag]

    def __contains__(self, tag):
        return tag in self.tables

    def getGlyphName(self, gid):
        return self.names[gid]


class GhostPNG:
    """stand-in for nanoemoji.png.PNG (a bytes subclass): pixel size and byte length"""

    def __init__(self, size, n):
        self.size = size
        self.n = n

    def __len__(self):
        return self.n


class GhostTransformPaint:
    """what Paint.from_ot yields for a transform paint, as far as callers look: its affine"""

    def __init__(self, m):
        self.m = m

    def gettransform(self):
        return self.m


# ---------------------------------------------------------------------------- ghost: gradients as svg._apply_gradient_paint sees them


class GhostGradient(NamedTuple):
    """a linear / radial gradient paint; `k` stands for all of its fields (geometry, stops,
    extend).  apply_transform is summarised by what the proved contracts of
    PaintLinearGradient / PaintRadialGradient.apply_transform establish: the result -- a
    gradient, possibly wrapped in a residual transform -- draws the same picture."""

    k: Any

    def apply_transform(self, transform, check_overflows=True):
        from vlib import ufn

        has_residual = ufn("apply_transform_has_residual", "bool", self.k, tuple(transform))
        k2 = ufn("apply_transform_gradient", "int", self.k, tuple(transform))
        m = tuple(ufn(f"apply_transform_residual_{i}", "real", self.k, tuple(transform)) for i in range(6))
        return GhostPlaced(has_residual, m, GhostGradient(k2))

    def round(self, ndigits):
        from vlib import ufn

        return GhostGradient(ufn("gradient_round", "int", self.k, ndigits))


class GhostPlaced(NamedTuple):
    """result of GhostGradient.apply_transform: `paint` behind the residual affine `m` when
    `has_residual`, else the gradient `paint` itself"""

    has_residual: Any
    m: Any
    paint: Any

    def gettransform(self):
        from picosvg.svg_transform import Affine2D

        return Affine2D(*self.m)

    def round(self, ndigits):
        return self.paint.round(ndigits)


def ghost_is_transform(p):
    return p.has_residual if kind(p) == "GhostPlaced" else False


def ghost_cast(t, v):
    return v
