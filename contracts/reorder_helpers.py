"""native helpers for c_reorder.py"""
import io
import random

# From the OpenType specification (GSUB, GPOS, GDEF chapters): every subtable format whose
# arrays are indexed by Coverage index (coverage attribute, parallel array), and lists that
# must be ordered by glyph id.  Lookups fontTools stores as name-keyed dicts (Single /
# Multiple / Alternate / Ligature substitution, ClassDef) are re-sorted by fontTools itself
# on compile and need no rule.
SPEC_COVERAGE_RULES = {
    ("SinglePos", 1): [("Coverage", None)],
    ("SinglePos", 2): [("Coverage", "Value")],
    ("PairPos", 1): [("Coverage", "PairSet")],
    ("PairPos", 2): [("Coverage", None)],
    ("CursivePos", 1): [("Coverage", "EntryExitRecord")],
    ("MarkBasePos", 1): [("MarkCoverage", "MarkArray.MarkRecord"), ("BaseCoverage", "BaseArray.BaseRecord")],
    ("MarkLigPos", 1): [("MarkCoverage", "MarkArray.MarkRecord"), ("LigatureCoverage", "LigatureArray.LigatureAttach")],
    ("MarkMarkPos", 1): [("Mark1Coverage", "Mark1Array.MarkRecord"), ("Mark2Coverage", "Mark2Array.Mark2Record")],
    ("ContextPos", 1): [("Coverage", "PosRuleSet")],
    ("ContextPos", 2): [("Coverage", None)],
    ("ContextPos", 3): [("Coverage", None)],
    ("ChainContextPos", 1): [("Coverage", "ChainPosRuleSet")],
    ("ChainContextPos", 2): [("Coverage", None)],
    ("ChainContextPos", 3): [("BacktrackCoverage", None), ("InputCoverage", None), ("LookAheadCoverage", None)],
    ("ContextSubst", 1): [("Coverage", "SubRuleSet")],
    ("ContextSubst", 2): [("Coverage", None)],
    ("ContextSubst", 3): [("Coverage", None)],
    ("ChainContextSubst", 1): [("Coverage", "ChainSubRuleSet")],
    ("ChainContextSubst", 2): [("Coverage", None)],
    ("ChainContextSubst", 3): [("BacktrackCoverage", None), ("InputCoverage", None), ("LookAheadCoverage", None)],
    ("ReverseChainSingleSubst", 1): [("Coverage", "Substitute"), ("BacktrackCoverage", None), ("LookAheadCoverage", None)],
    ("AttachList", None): [("Coverage", "AttachPoint")],
    ("LigCaretList", None): [("Coverage", "LigGlyph")],
    ("MarkGlyphSetsDef", None): [("Coverage", None)],
}
SPEC_SORTED_LISTS = {("PairSet", None): [("PairValueRecord", "SecondGlyph")]}


def nanoemoji_rules():
    from nanoemoji import reorder_glyphs as R

    cov, lists = {}, {}
    for (typ, fmt), rules in R._REORDER_RULES.items():
        for r in rules:
            if isinstance(r, R.ReorderCoverage):
                cov.setdefault((typ.__name__, fmt), []).append((r.coverage_attr, r.parallel_list_attr))
            else:
                lists.setdefault((typ.__name__, fmt), []).append((r.list_attr, r.key))
    return cov, lists


def rules_missing():
    cov, lists = nanoemoji_rules()
    missing = []
    for k, rs in SPEC_COVERAGE_RULES.items():
        for r in rs:
            if r not in cov.get(k, []):
                missing.append((k, r))
    for k, rs in SPEC_SORTED_LISTS.items():
        for r in rs:
            if r not in lists.get(k, []):
                missing.append((k, r))
    return missing


def rules_illformed():
    """every attribute path named by a rule exists in fontTools' otData for that type/format"""
    from fontTools.ttLib.tables import otData

    from fontTools.ttLib.tables import otTables

    fields = {}
    for name, flds in otData.otData:
        fields[name] = [f[1] for f in flds]
    # field names that denote another struct (Mark1Array is a MarkArray, ...)
    for base, alts in otTables._equivalents.items():
        for alt in alts:
            fields.setdefault(alt, fields.get(base))
    bad = []
    cov, lists = nanoemoji_rules()

    def struct_fields(typ, fmt):
        return fields.get(f"{typ}Format{fmt}" if fmt is not None else typ)

    def has_path(typ, fmt, path):
        parts = path.split(".")
        cur = struct_fields(typ, fmt)
        for i, p in enumerate(parts):
            if cur is None or p not in cur:
                return False
            if i + 1 < len(parts):
                cur = fields.get(p)
        return True

    for (typ, fmt), rs in cov.items():
        for c, par in rs:
            if not has_path(typ, fmt, c):
                bad.append((typ, fmt, c))
            if par and not has_path(typ, fmt, par):
                bad.append((typ, fmt, par))
    for (typ, fmt), rs in lists.items():
        for l, key in rs:
            if not has_path(typ, fmt, l):
                bad.append((typ, fmt, l))
    return bad


def otdata_coverage_without_rule():
    """mechanical completeness: every GSUB/GPOS/GDEF struct in otData with a Coverage-typed
    field has a nanoemoji rule naming that field (dict-modelled lookups excepted)"""
    from fontTools.ttLib.tables import otData

    cov, _ = nanoemoji_rules()
    named = {}
    for (typ, fmt), rs in cov.items():
        named.setdefault(f"{typ}Format{fmt}" if fmt is not None else typ, set()).update(c for c, _ in rs)
    dict_modelled = {"SingleSubstFormat1", "SingleSubstFormat2", "MultipleSubstFormat1", "AlternateSubstFormat1", "LigatureSubstFormat1"}
    out_of_scope_prefixes = ("VARC", "Math", "MATH")
    bad = []
    for name, flds in otData.otData:
        if name in dict_modelled or name.startswith(out_of_scope_prefixes) or name in ("VarCompositeGlyphs",):
            continue
        for f in flds:
            ftype, fname = f[0], f[1]
            if ftype == "Offset" and fname.endswith("Coverage") or ftype == "Offset" and fname == "Coverage":
                if fname not in named.get(name, set()):
                    bad.append((name, fname))
    return bad


# ---------------------------------------------------------------------------- fonts with layout

_FEA = """
languagesystem DFLT dflt;
@BASES = [a b c d];
@MARKS = [acutecomb gravecomb];
markClass acutecomb <anchor 10 500> @TOP;
markClass gravecomb <anchor 20 510> @TOP;
table GDEF {
  GlyphClassDef @BASES, [f_i], @MARKS, ;
  LigatureCaretByPos f_i 300;
  Attach a 1;
  Attach d 2 3;
} GDEF;
# two value-identical lookups (and two identical single-positioning lookups) under different
# features: each of them has to be reordered, not just the first one met
lookup K1 { pos a b -11; pos b a -21; pos d c 6; } K1;
lookup K2 { pos a b -11; pos b a -21; pos d c 6; } K2;
lookup S1 { pos c <7 0 8 0>; pos a <1 0 2 0>; } S1;
lookup S2 { pos c <7 0 8 0>; pos a <1 0 2 0>; } S2;
feature dist { lookup K1; lookup S1; } dist;
feature abvm { lookup K2; lookup S2; } abvm;
feature liga { sub f i by f_i; sub a b by e; } liga;
feature salt { sub a from [b c d]; sub e by b; sub f_i by f i; } salt;
feature kern {
  pos a b -10; pos b a -20; pos d c 5; pos a d 7;
  pos [a b] [c d] -30;
  pos e <1 2 3 4>; pos c <5 0 6 0>; pos d <5 0 6 0>;
} kern;
feature curs { pos cursive a <anchor 0 0> <anchor 100 0>; pos cursive d <anchor 1 1> <anchor 90 2>; pos cursive b <anchor NULL> <anchor 50 5>; } curs;
feature mark {
  pos base a <anchor 50 400> mark @TOP;
  pos base d <anchor 60 410> mark @TOP;
  pos base b <anchor 70 420> mark @TOP;
  pos ligature f_i <anchor 10 400> mark @TOP ligComponent <anchor 90 400> mark @TOP;
} mark;
feature mkmk { pos mark acutecomb <anchor 5 600> mark @TOP; pos mark gravecomb <anchor 6 610> mark @TOP; } mkmk;
lookup SUBX { sub b by e; sub c by e; sub d by e; } SUBX;
feature calt {
  # lists of coverages in which a one-glyph coverage precedes a longer one
  sub a' [d c b]' lookup SUBX e;
  sub x [d b]' lookup SUBX [y x];
  pos a' [d c]' 15 x;
  lookupflag UseMarkFilteringSet [gravecomb acutecomb];
  sub c' gravecomb by b;
  lookupflag 0;
  sub a' b' c by d;
  sub [a b]' d' by e;
  pos c' 10 d' 20 a;
  rsub a b' c by d;
  rsub d [a c]' by e;
  lookupflag UseMarkFilteringSet [acutecomb];
  sub d' acutecomb by b;
} calt;
"""
_GLYPHS = [".notdef", "a", "b", "c", "d", "e", "f", "i", "f_i", "acutecomb", "gravecomb", "x", "y"]


def build_layout_font(cff=False):
    from fontTools.fontBuilder import FontBuilder
    from fontTools.pens.ttGlyphPen import TTGlyphPen
    from fontTools.feaLib.builder import addOpenTypeFeaturesFromString

    fb = FontBuilder(1000, isTTF=not cff)
    fb.setupGlyphOrder(_GLYPHS)
    fb.setupCharacterMap({0x61 + i: g for i, g in enumerate(["a", "b", "c", "d", "e", "f"])} | {0x69: "i", 0x301: "acutecomb", 0x300: "gravecomb"})
    glyphs = {}
    for k, g in enumerate(_GLYPHS):
        if cff:
            from fontTools.pens.t2CharStringPen import T2CharStringPen

            pen = T2CharStringPen(500 + 3 * k, None)
        else:
            pen = TTGlyphPen(None)
        pen.moveTo((0, 0))
        pen.lineTo((100 + k, 0))
        pen.lineTo((100 + k, 100 + 2 * k))
        pen.closePath()
        glyphs[g] = pen.getCharString() if cff else pen.glyph()
    if cff:
        # (CFF keeps a glyph order of its own -- the charset -- next to the font's)
        fb.setupCFF("L-R", {"FullName": "L R"}, glyphs, {})
    else:
        fb.setupGlyf(glyphs)
    fb.setupHorizontalMetrics({g: (500 + 3 * k, k) for k, g in enumerate(_GLYPHS)})
    fb.setupHorizontalHeader(ascent=800, descent=-200)
    fb.setupNameTable({"familyName": "L", "styleName": "R"})
    fb.setupOS2()
    fb.setupPost()
    addOpenTypeFeaturesFromString(fb.font, _FEA)
    buf = io.BytesIO()
    fb.font.save(buf)
    from nanoemoji.util import load_fully
    from fontTools.ttLib import TTFont

    return load_fully(TTFont(io.BytesIO(buf.getvalue()), lazy=False))


def _xml_of(font, obj):
    from fontTools.misc.xmlWriter import XMLWriter

    buf = io.StringIO()
    w = XMLWriter(buf)
    if hasattr(obj, "toXML"):
        try:
            obj.toXML(w, font)
        except TypeError:
            obj.toXML(w, font, "Value")  # ValueRecord
    else:
        w.write(repr(obj))
    return buf.getvalue()


def _dotted(v, path):
    for p in path.split("."):
        v = getattr(v, p)
    return v


def _sem(font, obj):
    """name-keyed meaning of an OpenType layout object: arrays indexed by a Coverage become
    maps keyed by glyph name (recursively), lists ordered by glyph id become maps keyed by
    that glyph; everything else is its ttx text"""
    key = (type(obj).__name__, getattr(obj, "Format", None))
    crules = SPEC_COVERAGE_RULES.get(key, [])
    lrules = SPEC_SORTED_LISTS.get(key, [])
    if not crules and not lrules:
        if isinstance(obj, list):
            return [_sem(font, x) for x in obj]
        if hasattr(obj, "toXML"):
            return _xml_of(font, obj)
        return repr(obj)
    out = {}
    used = set()
    for cov_attr, par_attr in crules:
        cov = getattr(obj, cov_attr, None)
        used.add(cov_attr)
        if par_attr:
            used.add(par_attr.split(".")[0])
        if cov is None:
            continue
        if isinstance(cov, list):
            out[cov_attr] = [frozenset(c.glyphs) for c in cov]
        elif par_attr:
            par = _dotted(obj, par_attr)
            out[cov_attr] = {g: _sem(font, par[i]) for i, g in enumerate(cov.glyphs)}
        else:
            out[cov_attr] = frozenset(cov.glyphs)
    for list_attr, k_ in lrules:
        used.add(list_attr)
        out[list_attr] = {getattr(r, k_): _xml_of(font, r) for r in getattr(obj, list_attr)}
    for a, v in sorted(vars(obj).items()):
        if a in used or a.endswith("Count") or a.startswith("_"):
            continue
        out["." + a] = _sem(font, v) if (hasattr(v, "toXML") or isinstance(v, list)) else repr(v)
    return out


def name_level_facts(font):
    """cmap, metrics, outlines and what each lookup does to each *named* glyph"""
    facts = {"cmap": dict(font.getBestCmap()), "hmtx": dict(font["hmtx"].metrics)}
    if "glyf" in font:
        facts["glyf"] = {g: tuple(font["glyf"][g].getCoordinates(font["glyf"])[0]) for g in font.getGlyphOrder()}
    else:
        from fontTools.pens.recordingPen import RecordingPen

        gs = font.getGlyphSet()
        facts["outlines"] = {}
        for g in font.getGlyphOrder():
            rp = RecordingPen()
            gs[g].draw(rp)
            facts["outlines"][g] = repr(rp.value)
    for tag in ("GPOS", "GSUB"):
        if tag not in font:
            continue
        t = font[tag].table
        facts[tag + ".features"] = _xml_of(font, t.FeatureList) + _xml_of(font, t.ScriptList)
        for li, lookup in enumerate(t.LookupList.Lookup):
            for si, st in enumerate(lookup.SubTable):
                if hasattr(st, "ExtSubTable"):
                    st = st.ExtSubTable
                facts[(tag, li, si, "flag")] = (lookup.LookupType, lookup.LookupFlag, getattr(lookup, "MarkFilteringSet", None))
                facts[(tag, li, si)] = _sem(font, st)
    if "GDEF" in font:
        g = font["GDEF"].table
        for a in ("GlyphClassDef", "MarkAttachClassDef"):
            v = getattr(g, a, None)
            facts[("GDEF", a)] = dict(v.classDefs) if v is not None else None
        for a in ("AttachList", "LigCaretList", "MarkGlyphSetsDef"):
            v = getattr(g, a, None)
            facts[("GDEF", a)] = _sem(font, v) if v is not None else None
    return facts


def coverage_unsorted(font):
    from nanoemoji.util import bfs_base_table

    bad = []
    for tag in ("GDEF", "GPOS", "GSUB"):
        if tag not in font:
            continue
        for path in bfs_base_table(font[tag].table, tag):
            v = path[-1].value
            if type(v).__name__ == "Coverage":
                gids = [font.getGlyphID(g) for g in v.glyphs]
                if gids != sorted(gids):
                    bad.append((tag, v.glyphs))
    return bad


def gen_order(rng, i=0):
    rest = _GLYPHS[1:]
    rng.shuffle(rest)
    # every third case: the same font with CFF outlines
    return {"new_order": [".notdef"] + rest, "cff": i % 3 == 2}


def reorder_and_reload(new_order, cff=False):
    from nanoemoji.reorder_glyphs import reorder_glyphs
    from fontTools.ttLib import TTFont

    font = build_layout_font(cff)
    before = name_level_facts(font)
    reorder_glyphs(font, list(new_order))
    buf = io.BytesIO()
    font.save(buf)
    font2 = TTFont(io.BytesIO(buf.getvalue()), lazy=False)
    return {"before": before, "after": name_level_facts(font2), "order": font2.getGlyphOrder(), "unsorted": coverage_unsorted(font2)}


def fact_diff(a, b):
    return [k for k in set(a) | set(b) if a.get(k) != b.get(k)]


def gen_bad_order(rng):
    kind = rng.choice(["short", "different-set", "duplicate"])
    order = list(_GLYPHS)
    if kind == "short":
        order = order[:-1]
    elif kind == "different-set":
        order[-1] = "zzz"
    else:
        order[-1] = order[-2]
    return {"new_order": order}


def reorder_raises(new_order):
    from nanoemoji.reorder_glyphs import reorder_glyphs

    font = build_layout_font()
    try:
        reorder_glyphs(font, list(new_order))
    except ValueError as e:
        return "ValueError"
    return None


# ---- native cross-check of the functions proved for any length (CPython's sorted/list.sort
# against the consequences of the axiom the proof assumes)


def gen_sort_case(rng, i=0):
    n = [0, 1, 2, 5, 17, 64][i % 6] if i < 12 else rng.randint(0, 40)
    names = [f"g{k}" for k in range(n)]
    gids = list(range(n))
    rng.shuffle(gids)
    # equal records on purpose (a pairing kept only "up to equal records" must still pass)
    entries = [rng.randint(0, 3) for _ in range(n)]
    return {"names": names, "gids": gids, "entries": entries, "paired": i % 4 != 3}


def run_sort_by_gid(names, gids, entries, paired):
    from nanoemoji.reorder_glyphs import _sort_by_gid, ReorderList

    gid = dict(zip(names, gids))
    glyphs = list(names)
    par = list(entries) if paired else None
    _sort_by_gid(gid.__getitem__, glyphs, par)

    class _R:
        def __init__(self, g, e):
            self.SecondGlyph, self.payload = g, e

    class _V:
        pass

    class _F:
        getGlyphID = staticmethod(gid.__getitem__)

    v = _V()
    v.PairValueRecord = [_R(g, e) for g, e in zip(names, entries)]
    ReorderList("PairValueRecord", key="SecondGlyph").apply(_F, v)
    return {
        "glyphs": glyphs,
        "parallel": par,
        "gids": [gid[g] for g in glyphs],
        "old_pairs": sorted(zip(names, entries)),
        "records": [(r.SecondGlyph, r.payload) for r in v.PairValueRecord],
    }
