"""Native half of the contract helper library.

The prover never imports this file: it interprets contract modules itself and supplies the
symbolic definitions of these names (vc/builtins_.py, vc/shapes.py).  The replay / bounded
harness (run under /venv/bin/python) imports contract modules natively and gets these.
"""
import importlib
import math
import random
import types
from fractions import Fraction

REGISTRY = []  # (target, class, kwargs, kind)


def contract(target, **kw):
    def deco(cls):
        REGISTRY.append((target, cls, kw, "contract"))
        return cls

    return deco


def lemma(target, **kw):
    def deco(cls):
        REGISTRY.append((target, cls, kw, "lemma"))
        return cls

    return deco


def implies(a, b):
    return (not a) or bool(b)


def iff(a, b):
    return bool(a) == bool(b)


def _flat(v):
    if isinstance(v, (tuple, list)):
        out = []
        for x in v:
            out += _flat(x)
        return out
    import dataclasses

    if dataclasses.is_dataclass(v) and not isinstance(v, type):
        out = []
        for f in dataclasses.fields(v):
            out += _flat(getattr(v, f.name))
        return out
    return [v]


def close(x, y, eps):
    fx, fy = _flat(x), _flat(y)
    if len(fx) != len(fy):
        return False
    return all(abs(p - q) <= eps for p, q in zip(fx, fy))


def kind(v):
    if v is None:
        return "NoneType"
    if isinstance(v, OpaqueToken):
        return "opaque:" + v.tag
    return type(v).__name__


def is_int(v):
    return float(v).is_integer()


def isnone(v):
    return v is None


def forall(lo, hi, f):
    return all(f(i) for i in range(lo, hi))


def exists(lo, hi, f):
    return any(f(i) for i in range(lo, hi))


def seq_len(x):
    return len(x)


def same(a, b):
    import dataclasses

    return a is b or ((isinstance(a, OpaqueToken) or dataclasses.is_dataclass(a)) and a == b)


# ---------------------------------------------------------------------------- shapes


class Shape:
    def __init__(self, kind, *a, **k):
        self.kind = kind
        self.a = a
        self.k = k


Int = Shape("int")
Real = Shape("real")
Bool = Shape("bool")
Str = Shape("str")
Bytes = Shape("bytes")


def Record(qual, **k):
    return Shape("record", qual, **k)


def Opaque(tag):
    return Shape("opaque", tag)


def Optional_(s):
    return Shape("opt", s)


def TupleOf(*a):
    return Shape("tuple", *a)


def ListOf(*a):
    return Shape("list", *a)


def SeqOf(s, **k):
    return Shape("seq", s, **k)


def Const(v):
    return Shape("const", v)


def Obj(*a, **k):
    return Shape("obj", *a, **k)


def OneOf(*a):
    return Shape("oneof", *a)


def IntRange(lo, hi):
    return Shape("intrange", lo, hi)


def Enum(qual):
    return Shape("enum", qual)


def Elem(tag, **k):
    return Shape("elem", tag, **k)


def Instance(qual, **k):
    return Shape("instance", qual, **k)


def AssocOf(*pairs):
    """dict with the given (key shape, value shape) entries (keys of any shape, distinct)"""
    return Shape("assoc", *pairs)


def MapOf(k, v):
    return Shape("map", k, v)


def SetOf(k):
    return Shape("pset", k)


def map_has(m, k):
    return k in m


def map_has_set(s, x):
    return x in s


def map_get(m, k):
    return m[k]


def map_same(a, b):
    return a == b


def map_is_update(new, old, key, val):
    d = dict(old)
    d[key] = val
    return new == d


def set_is_add(new, old, x):
    return new == set(old) | {x}


def ufn(name, sort, *args):
    raise NotImplementedError("uninterpreted function: symbolic tier only")


def EnumConst(qual, name):
    return Shape("enumconst", qual, name)


def ClassOf(qual):
    return Shape("class", qual)


class OpaqueToken:
    """stand-in for a value the contracts treat as opaque (a paint subtree ...)"""

    def __init__(self, tag, ident):
        self.tag = tag
        self.ident = ident

    def __eq__(self, other):
        return isinstance(other, OpaqueToken) and (self.tag, self.ident) == (other.tag, other.ident)

    def __hash__(self):
        return hash((self.tag, self.ident))

    def __repr__(self):
        return f"<{self.tag} {self.ident}>"


def load_class(qual):
    mod, _, name = qual.rpartition(".")
    return getattr(importlib.import_module(mod), name)


_OPAQUE_FACTORY = {}


def opaque_factory(tag):
    def deco(f):
        _OPAQUE_FACTORY[tag] = f
        return f

    return deco


def make_opaque(tag, ident):
    f = _OPAQUE_FACTORY.get(tag)
    if f:
        return f(ident)
    return OpaqueToken(tag, ident)


def _interesting_real(rng):
    r = rng.random()
    if r < 0.25:
        return float(rng.choice([0, 1, -1, 2, -2, 0.5, -0.5, 1e-9, 1 + 1e-9, 1 - 1e-9, 32767, -32768, 32768, 1.99993896484375, 2.0, 100, -100]))
    if r < 0.5:
        return float(rng.randint(-40000, 40000))
    if r < 0.75:
        return rng.uniform(-3, 3)
    return rng.uniform(-70000, 70000)


def _interesting_int(rng):
    r = rng.random()
    if r < 0.3:
        return rng.choice([0, 1, -1, 2, 127, 128, -128, -129, 255, 256, 1024, 65535])
    if r < 0.7:
        return rng.randint(-300, 300)
    return rng.randint(-70000, 70000)


def generate(sh, rng, field_types=None):
    """random native value for a shape"""
    if not isinstance(sh, Shape):
        if isinstance(sh, dict):
            return {k: generate(v, rng) for k, v in sh.items()}
        if isinstance(sh, tuple) and not hasattr(sh, "_fields"):
            return tuple(generate(v, rng) for v in sh)
        if isinstance(sh, list):
            return [generate(v, rng) for v in sh]
        return sh
    k = sh.kind
    if k == "int":
        return _interesting_int(rng)
    if k == "intrange":
        lo, hi = sh.a
        return rng.choice([lo, hi, rng.randint(lo, hi), rng.randint(lo, min(hi, lo + 20))])
    if k == "real":
        return _interesting_real(rng)
    if k == "bool":
        return rng.random() < 0.5
    if k == "str":
        return rng.choice(["", "a", "M0,0", "black", "x y"])
    if k == "bytes":
        return bytes(rng.randint(0, 40))
    if k == "const":
        return generate(sh.a[0], rng) if isinstance(sh.a[0], (dict, list)) else sh.a[0]
    if k == "class":
        return load_class(sh.a[0])
    if k == "enumconst":
        return getattr(load_class(sh.a[0]), sh.a[1])
    if k == "opaque":
        return make_opaque(sh.a[0], rng.randint(0, 3))
    if k == "opt":
        return None if rng.random() < 0.3 else generate(sh.a[0], rng)
    if k == "tuple":
        return tuple(generate(s, rng) for s in sh.a)
    if k == "list":
        return [generate(s, rng) for s in sh.a]
    if k == "oneof":
        return generate(rng.choice(sh.a), rng)
    if k == "obj":
        return types.SimpleNamespace(**{f: generate(s, rng) for f, s in sh.k.items()})
    if k == "instance":
        cls = load_class(sh.a[0])
        o = cls.__new__(cls)
        for f, s_ in sh.k.items():
            setattr(o, f, generate(s_, rng))
        return o
    if k == "map":
        return {generate(sh.a[0], rng): generate(sh.a[1], rng) for _ in range(rng.randint(0, 3))}
    if k == "pset":
        return {generate(sh.a[0], rng) for _ in range(rng.randint(0, 3))}
    if k == "seq":
        n = rng.randint(0, sh.k.get("max_len", 5))
        items = [generate(sh.a[0], rng) for _ in range(n)]
        return tuple(items) if sh.k.get("kind") == "tuple" else items
    if k == "record":
        cls = load_class(sh.a[0])
        return cls(**{f: generate(s, rng) for f, s in record_fields(cls, sh).items()})
    raise ValueError(k)


def record_fields(cls, sh):
    import dataclasses
    import typing

    out = {}
    if dataclasses.is_dataclass(cls):
        names = [(f.name, f.type) for f in dataclasses.fields(cls)]
    else:
        names = list(cls.__annotations__.items())
        names = [(n, t) for n, t in names if n in cls._fields]
    for n, t in names:
        if n in sh.k:
            out[n] = sh.k[n]
        else:
            out[n] = _shape_of_type(t, cls)
    return out


def _shape_of_type(t, cls):
    import typing

    if isinstance(t, str):
        t = {"float": float, "int": int, "bool": bool, "str": str}.get(t, t)
    if t is float:
        return Real
    if t is int:
        return Int
    if t is bool:
        return Bool
    if t is str:
        return Str
    origin = typing.get_origin(t)
    if origin is typing.Union:
        args = [a for a in typing.get_args(t) if a is not type(None)]
        return Optional_(_shape_of_type(args[0], cls))
    if origin is tuple:
        return TupleOf(*[_shape_of_type(a, cls) for a in typing.get_args(t)])
    if isinstance(t, type):
        import dataclasses

        if t.__name__ == "Paint":
            return Opaque("Paint")
        if dataclasses.is_dataclass(t) or hasattr(t, "_fields"):
            return Record(t.__module__ + "." + t.__name__)
    if isinstance(t, str):
        import sys

        m = sys.modules[cls.__module__]
        if hasattr(m, t):
            return _shape_of_type(getattr(m, t), cls)
        if t == "Paint":
            return Opaque("Paint")
    raise ValueError(f"no shape for {t!r} in {cls}")


def from_json(j):
    """rebuild a native value from the prover's model JSON"""
    if isinstance(j, dict):
        if "__frac__" in j:
            return float(Fraction(int(j["__frac__"][0]), int(j["__frac__"][1])))
        if "__rec__" in j:
            cls = load_class(j["__rec__"])
            return cls(**{k: from_json(v) for k, v in j["fields"].items()})
        if "__tuple__" in j:
            return tuple(from_json(x) for x in j["__tuple__"])
        if "__opaque__" in j:
            return make_opaque(j["__opaque__"], j["id"])
        if "__seq__" in j:
            items = [from_json(x) for x in j["items"]]
            return tuple(items) if j["__seq__"] == "tuple" else items
        if "__obj__" in j:
            return types.SimpleNamespace(**{k: from_json(v) for k, v in j["__obj__"].items()})
        if "__dict__" in j:
            return {from_json(k): from_json(v) for k, v in j["__dict__"]}
        if "__pickle__" in j:
            import base64
            import pickle

            return pickle.loads(base64.b64decode(j["__pickle__"]))
        if "__bytes__" in j:
            return bytes(max(0, min(int(j["__bytes__"]), 100000)))
        if "__class__" in j:
            return load_class(j["__class__"])
        if "__enum__" in j:
            return getattr(load_class(j["__enum__"]), j["name"])
        raise ValueError(f"cannot rebuild {j}")
    if isinstance(j, list):
        return [from_json(x) for x in j]
    return j
