"""Contracts on the picosvg functions nanoemoji's transform code calls.  They are used
modularly at the call sites in nanoemoji and are themselves checked against the installed
picosvg source (obligations tagged dep:, reported separately from the obligations on /repo).
"""
from vlib import *
import spec
from math import hypot

AFF = Record("picosvg.svg_transform.Affine2D")
EPS = 2 ** -52  # sys.float_info.epsilon, exactly


@contract("picosvg.svg_transform.Affine2D.decompose_scale", props=["C16", "C01", "C13"], dep=True)
class decompose_scale:
    args = {"self": AFF}
    returns = TupleOf(AFF, AFF)
    may_raise = ("AssertionError",)
    ensures = {
        "scale-shape": lambda self, result: (
            result[0].b == 0 and result[0].c == 0 and result[0].e == 0 and result[0].f == 0
            and result[0].a >= 0 and result[0].d >= 0
            and result[0].a * result[0].a == self.a * self.a + self.b * self.b
            and result[0].d * result[0].d == self.c * self.c + self.d * self.d
        ),
        # remaining o scale == self, exactly, unless the scale part is (numerically) singular
        "recompose": lambda self, result: implies(
            result[0].a * result[0].d > EPS,
            spec.mul(spec.aff(result[1]), spec.aff(result[0])) == spec.aff(self),
        ),
        "remaining-keeps-translation": lambda self, result: result[1].e == self.e and result[1].f == self.f,
    }
    # exact-real clauses are not evaluated on floats; their tolerant forms are
    native_skip = ("scale-shape", "recompose")
    native_ensures = {
        "recompose~": lambda self, result: implies(
            result[0].a * result[0].d > 1e-6,
            close(spec.mul(spec.aff(result[1]), spec.aff(result[0])), spec.aff(self), 1e-9 * (1 + sum(abs(v) for v in self))),
        ),
        "scale~": lambda self, result: close(
            (result[0].a ** 2, result[0].d ** 2), (self.a ** 2 + self.b ** 2, self.c ** 2 + self.d ** 2), 1e-9 * (1 + sum(v * v for v in self))
        ),
    }


@contract("picosvg.svg_transform.Affine2D.decompose_translation", props=["C16", "C01", "C13"], dep=True)
class decompose_translation:
    args = {"self": AFF}
    returns = TupleOf(AFF, AFF)
    may_raise = ("AssertionError", "ZeroDivisionError")
    ensures = {
        "prime": lambda self, result: spec.aff(result[1]) == (self.a, self.b, self.c, self.d, 0, 0),
        "translation-shape": lambda self, result: (
            result[0].a == 1 and result[0].b == 0 and result[0].c == 0 and result[0].d == 1
        ),
        # the function's own sanity assert: prime o translation is self within 1e-4
        "recompose": lambda self, result: close(
            spec.mul(spec.aff(result[1]), spec.aff(result[0])), spec.aff(self), 1e-4
        ),
        # exact whenever the branch taken does not treat a tiny `a` as zero
        "recompose-exact": lambda self, result: implies(
            (abs(self.a) > 1e-9 or self.a == 0) and (abs(self.e) > 1e-9 or abs(self.f) > 1e-9),
            spec.mul(spec.aff(result[1]), spec.aff(result[0])) == spec.aff(self),
        ),
        "tiny-translation-dropped": lambda self, result: implies(
            abs(self.e) <= 1e-9 and abs(self.f) <= 1e-9, result[0].e == 0 and result[0].f == 0
        ),
    }
    native_skip = ("recompose-exact",)


@contract("picosvg.svg_transform.Affine2D.inverse", props=["C16", "C01", "C02", "C06", "C13"], dep=True)
class inverse:
    args = {"self": AFF}
    returns = AFF
    ensures = {
        # polynomial form of "result is the two-sided inverse" (no division for the solver)
        "inverse": lambda self, result: implies(
            abs(self.a * self.d - self.b * self.c) > EPS,
            spec.mul(spec.aff(result), spec.aff(self)) == spec.ID
            and spec.mul(spec.aff(self), spec.aff(result)) == spec.ID,
        ),
        "degenerate": lambda self, result: implies(
            abs(self.a * self.d - self.b * self.c) <= EPS and spec.aff(self) != spec.ID,
            spec.aff(result) == (0, 0, 0, 0, 0, 0),
        ),
        "identity": lambda self, result: implies(spec.aff(self) == spec.ID, spec.aff(result) == spec.ID),
    }
    native_skip = ("inverse",)
    native_ensures = {
        "inverse~": lambda self, result: implies(
            abs(self.a * self.d - self.b * self.c) > 1e-3,
            close(spec.mul(spec.aff(result), spec.aff(self)), spec.ID, 1e-6 * (1 + sum(abs(v) for v in self)) * (1 + sum(abs(v) for v in result))),
        ),
    }
