"""End-to-end run-time contracts on nanoemoji's real entry points (bounded tier only).

Each contract generates source sets from a specification object, calls the real function
and evaluates a postcondition taken from the property statement.  Sampling based; labelled
bounded in the evidence and never counted as proved.
"""
from vlib import *
import e2e


def _cfg_variants(rng, fmt):
    v = rng.choice(
        [
            dict(),
            dict(upem=1000, ascender=800, descender=-200, width=1000),
            dict(upem=2048, ascender=1900, descender=-500, width=0),
            dict(width=600),
        ]
    )
    v = dict(v, color_format=fmt, output_file="out.ttf")
    r = rng.random()
    if r < 0.3:
        from picosvg.svg_transform import Affine2D

        # user transforms that keep circles circular (OT-SVG rejects the others for radial
        # gradients, which the property allows): translation, uniform scale, mirror, rotation
        v["transform"] = rng.choice(
            [
                Affine2D(1, 0, 0, 1, 40, -25),
                Affine2D(0.8, 0, 0, 0.8, 0, 0),
                Affine2D(-1, 0, 0, 1, 1000, 0),
                Affine2D(1, 0, 0, -1, 0, 700),
                Affine2D(0.8660254037844387, 0.5, -0.5, 0.8660254037844387, 150, -200),
                Affine2D(0, 0.9, -0.9, 0, 900, 0),
            ]
        )
    return v


def _add_sibling_radials(rng, glyphs):
    """two shapes in one glyph whose radial gradients agree in circle, stops and spread and
    differ only in a non-uniform gradientTransform (the part of the transform that cannot be
    folded into the circle): each must keep its own gradient definition"""
    g = rng.choice(glyphs)
    x, y, w, h = g.viewbox
    m = min(w, h)
    c = (x + 0.4 * w, y + 0.4 * h)
    r = 0.3 * m
    k = rng.choice([0.5, 0.4, 0.6])
    spread = rng.choice(["pad", "reflect"])
    stops = e2e._stops(rng, spread)
    for gt in ((1, 0, 0, k, 0, y * (1 - k)), (k, 0, 0, 1, x * (1 - k), 0)):
        cx, cy = gt[0] * c[0] + gt[4], gt[3] * c[1] + gt[5]
        hx, hy = 0.8 * r * gt[0], 0.8 * r * gt[3]
        pts = [(round(cx - hx), round(cy - hy)), (round(cx + hx), round(cy - hy)), (round(cx + hx), round(cy + hy)), (round(cx - hx), round(cy + hy))]
        g.items.append(e2e.Shape(pts, e2e.Radial(c, r, c, list(stops), "userSpaceOnUse", gt, spread), 1.0))


def _gen_colr1(rng):
    over_ = _cfg_variants(rng, "glyf_colr_1")
    if rng.random() < 0.25:
        over_["clipbox_quantization"] = rng.choice([1, 7, 64])
    if rng.random() < 0.2:
        over_["reuse_tolerance"] = rng.choice([-1, -1, -0.25, -3])
    glyphs = e2e.gen_glyphset(rng)
    if rng.random() < 0.15:
        _add_sibling_radials(rng, glyphs)
    return {"glyphs": glyphs, "overrides": over_}


def _build(glyphs, overrides):
    cfg = e2e.default_config(**overrides)
    ufo, font, inputs, data = e2e.build(glyphs, cfg)
    return {"cfg": cfg, "font": font, "ufo": ufo, "inputs": inputs}


def _name(glyph):
    from nanoemoji.glyph import glyph_name

    return getattr(glyph, "name", None) or glyph_name(glyph.codepoints)


def _picture_mismatches(glyphs, result, evaluator_factory, n=11, otsvg=False):
    """list of (glyph index, sample point, expected, actual)"""
    cfg, font = result["cfg"], result["font"]
    ev = evaluator_factory(font)
    bad = []
    for gi, g in enumerate(glyphs):
        name = _name(g)
        adv = font["hmtx"][name][0]
        F = e2e.placement(g.viewbox, cfg.ascender, cfg.descender, adv, tuple(cfg.transform), otsvg=otsvg)
        s = (cfg.ascender - cfg.descender) / g.viewbox[3]
        # skip samples near outline edges: quantisation (1/2 unit per point, scaled by a reuse
        # transform up to ~2x here) plus the reuse tolerance
        margin = (2.5 + 0.3 * s) / s
        if e2e.has_hard_stop(g):
            continue
        vx, vy, vw, vh = g.viewbox
        pts = e2e.sample_points(g.viewbox, n) + [q_ for q_ in e2e.edge_samples(g, margin) if vx < q_[0] < vx + vw and vy < q_[1] < vy + vh]
        for p in pts:
            if e2e.near_edge(g, p, margin):
                continue
            want = e2e.spec_color(g, p)
            if want is None:
                continue
            got = ev(gi, name, e2e.ap(F, p))
            if got is None:
                continue
            if isinstance(got, str) or not e2e.color_close(want, got):
                if not isinstance(got, str):
                    # rounding of gradient geometry to integers moves the colour line by up
                    # to ~(1 + t/2) font units: accept what the specification paints nearby
                    delta = (1.0 + 0.5 * e2e.gradient_t_at(g, p)) / s
                    if otsvg:
                        # OT-SVG output is rounded to 3 decimals; under a strongly non-uniform
                        # reuse transform (gradientTransform entries ~0.09 x coordinates ~500)
                        # that moves a gradient by up to ~0.3 viewBox units
                        delta += 0.3
                    if delta < margin + (0.3 if otsvg else 0) and e2e.within_envelope(g, p, got, delta):
                        continue
                bad.append((gi, p, tuple(round(v, 3) for v in want), got if isinstance(got, str) else tuple(round(v, 3) for v in got)))
    return bad


def _colr_eval(font):
    ev = e2e.ColrEval(font)
    return lambda gi, name, q: ev.glyph_color(name, q)


def _f20_witness():
    # tests/radial_gradient_rect.svg in spirit: repeat, stops at 5 % and 75 % only
    stops = [(0.05, (255, 0, 255), 1.0), (0.75, (255, 165, 0), 1.0)]
    fill = e2e.Linear((10, 0), (40, 0), stops, "userSpaceOnUse", None, "repeat")
    g = e2e.GlyphSpec((0, 0, 100, 100), [e2e.Shape([(5, 20), (95, 20), (95, 80), (5, 80)], fill, 1.0)], (0xE000,))
    return {"glyphs": [g], "overrides": dict(color_format="glyf_colr_1", output_file="out.ttf")}


@contract("nanoemoji.write_font._generate_color_font", props=["C01", "C05", "C15", "C16", "C06"])
class e2e_colrv1_picture:
    bounded_only = True
    gen = _gen_colr1
    native_call = _build
    n_quick = 40
    n_thorough = 600
    known_witnesses = {"F20": _f20_witness}
    ensures = {
        # C01: the COLRv1 glyph paints the picture of its source placed in the em box
        "same-picture-at-sample-points": lambda glyphs, result: _picture_mismatches(glyphs, result, _colr_eval) == [],
        # C04/C01: advance = max(width, round(em * vb.w / vb.h))
        "advance-rule": lambda glyphs, result: all(
            result["font"]["hmtx"][_name(g)][0] == e2e.advance_rule(g.viewbox, result["cfg"].width, result["cfg"].ascender, result["cfg"].descender)
            for g in glyphs
        ),
    }


def _gen_solid(rng):
    fmt = rng.choice(["glyf_colr_0", "cff_colr_0"])
    over_ = _cfg_variants(rng, fmt)
    if fmt.startswith("cff"):
        over_["output_file"] = "out.otf"
    glyphs = e2e.gen_glyphset(rng, gradients=False, groups=False)
    for g in glyphs:
        for sh in e2e.all_shapes(g):
            if getattr(sh.fill, "current", False):
                # known finding F14 (translucent currentColor in COLRv0): that class is
                # exercised by the recorded witness below, not drawn at random
                sh.opacity = 1.0
    return {"glyphs": glyphs, "overrides": over_}


def _f14_witness():
    fill = e2e.Solid((0, 0, 0), 1.0)
    fill.current = True
    g = e2e.GlyphSpec((0, 0, 100, 100), [e2e.Shape([(20, 20), (80, 20), (80, 80), (20, 80)], fill, 0.5)], (0xE000,))
    return {"glyphs": [g], "overrides": dict(color_format="glyf_colr_0", output_file="out.ttf")}


@contract("nanoemoji.write_font._generate_color_font", props=["C03", "C15"])
class e2e_colrv0_picture:
    bounded_only = True
    gen = _gen_solid
    native_call = _build
    n_quick = 30
    n_thorough = 400
    known_witnesses = {"F14": _f14_witness}
    ensures = {
        "same-picture-at-sample-points": lambda glyphs, result: _picture_mismatches(glyphs, result, _colr_eval) == [],
        # one layer per source shape, in z-order
        "one-layer-per-shape": lambda glyphs, result: all(
            len(result["font"]["COLR"].ColorLayers.get(_name(g), [])) == len(list(e2e.all_shapes(g))) for g in glyphs
        ),
    }


def _add_grouped_reuse(rng, glyphs):
    """a one-shape glyph, and a glyph whose opacity group holds a copy of that shape followed
    by another shape (the shared outline is then used once directly and otherwise only from
    inside groups)"""
    vb = glyphs[0].viewbox
    pts = e2e._poly(rng, vb)
    other = e2e._poly(rng, vb)
    base = 0xE200 + len(glyphs)
    a = e2e.GlyphSpec(vb, [e2e.Shape(pts, e2e.Solid(e2e._rgb(rng)), 1.0)], (base,))
    inner = [e2e.Shape(list(pts), e2e.Solid(e2e._rgb(rng)), 1.0), e2e.Shape(other, e2e.Solid(e2e._rgb(rng)), 1.0)]
    if rng.random() < 0.3:
        inner.reverse()
    b = e2e.GlyphSpec(vb, [e2e.Group(0.5, inner)], (base + 1,))
    pair = [a, b]
    if rng.random() < 0.5:
        pair.reverse()
    glyphs.extend(pair)


def _gen_glyf(rng):
    glyphs = e2e.gen_glyphset(rng, gradients=False, groups=rng.random() < 0.4)
    if rng.random() < 0.3:
        _add_grouped_reuse(rng, glyphs)
    return {"glyphs": glyphs, "overrides": _cfg_variants(rng, "glyf")}


def _placed_polygons(font, name):
    """one polygon list per placed outline: own contours, and each component decomposed
    separately under its transform"""
    from fontTools.pens.recordingPen import DecomposingRecordingPen, RecordingPen
    from fontTools.pens.transformPen import TransformPen

    glyf = font["glyf"]
    g = glyf[name]
    out = []
    if g.isComposite():
        for comp in g.components:
            t = getattr(comp, "transform", [[1, 0], [0, 1]])
            m = (t[0][0], t[0][1], t[1][0], t[1][1], comp.x, comp.y)
            for poly in e2e.glyph_polys(font, comp.glyphName):
                out.append([e2e.ap(m, p) for p in poly])
    else:
        out.extend(e2e.glyph_polys(font, name))
    return out


def _same_polygon(a, b, tol):
    if len(a) != len(b):
        return False
    n = len(a)
    for rev in (False, True):
        bb = list(reversed(b)) if rev else b
        for sh in range(n):
            if all(abs(a[i][0] - bb[(i + sh) % n][0]) <= tol and abs(a[i][1] - bb[(i + sh) % n][1]) <= tol for i in range(n)):
                return True
    return False


def _coverage_mismatch(glyphs, result):
    """every source outline placed exactly once at its source position, nothing else"""
    cfg, font = result["cfg"], result["font"]
    bad = []
    for g in glyphs:
        name = _name(g)
        adv = font["hmtx"][name][0]
        F = e2e.placement(g.viewbox, cfg.ascender, cfg.descender, adv, tuple(cfg.transform))
        s = (cfg.ascender - cfg.descender) / g.viewbox[3]
        tol = 2.0 + 0.3 * s
        placed = _placed_polygons(font, name)
        want = [[e2e.ap(F, p) for p in sh.pts] for sh in e2e.all_shapes(g)]
        used = set()
        for wi, w in enumerate(want):
            hit = [pi for pi, p in enumerate(placed) if pi not in used and _same_polygon(w, p, tol)]
            if not hit:
                bad.append((name, "source outline not placed", wi))
            else:
                used.add(hit[0])
        if len(used) != len(placed):
            bad.append((name, "extra geometry", len(placed) - len(used)))
    return bad


@contract("nanoemoji.write_font._generate_color_font", props=["C03"])
class e2e_glyf_outlines:
    bounded_only = True
    gen = _gen_glyf
    native_call = _build
    n_quick = 25
    n_thorough = 300
    ensures = {
        # every source outline is placed at its source position; no other visible geometry
        "every-outline-placed-once-nothing-else": lambda glyphs, result: _coverage_mismatch(glyphs, result) == [],
    }


# ---------------------------------------------------------------------------- OT-SVG


def _add_default_paint_donor(rng, glyphs, cross=None):
    """a shape with SVG's default paint (opaque black: no fill / opacity attribute at all)
    followed, in the same glyph, by copies that all share one other paint"""
    g = rng.choice(glyphs)
    x, y, w, h = g.viewbox
    ww, hh = max(6, int(w * 0.18)), max(6, int(h * 0.18))
    x0, y0 = x + int(w * 0.05), y + int(h * 0.05)
    # an irregular pentagon: no other generated shape (rectangles, triangles, quads) is an
    # affine image of it, so the copies below reuse exactly this donor
    pts = [(x0, y0), (x0 + ww, y0 + 1), (x0 + ww + 2, y0 + hh - 2), (x0 + ww // 2, y0 + hh), (x0 - 1, y0 + hh // 2)]
    g.items.insert(0, e2e.Shape(pts, e2e.Solid((0, 0, 0), 1.0), 1.0))
    fill = rng.choice([e2e.Solid(e2e._rgb(rng), 1.0), e2e.Solid((0, 0, 0), 1.0)])
    op = 1.0 if fill.rgb != (0, 0, 0) and rng.random() < 0.5 else 0.5
    # the copies live in the same glyph (the donor stays in place) or in another glyph of the
    # same viewBox (the donor moves to <defs> and is itself drawn through a bare <use>)
    others = [o for o in glyphs if o is not g and o.viewbox == g.viewbox]
    if cross is None:
        cross = bool(others) and rng.random() < 0.5
    if cross and not others:
        others = [e2e.GlyphSpec(g.viewbox, [e2e.Shape(e2e._poly(rng, g.viewbox), e2e.Solid(e2e._rgb(rng)), 1.0)], (0xE400 + len(glyphs),))]
        glyphs.append(others[0])
    host = rng.choice(others) if cross else g
    for k in range(rng.randint(1, 2)):
        dx, dy = (k + 1) * (ww + 3), (k + 1) * 2
        host.items.append(e2e.Shape([(px + dx, py + dy) for px, py in pts], e2e.Solid(fill.rgb, 1.0), op))


def _add_same_gradient_in_other_documents(rng, glyphs):
    """glyphs that share no outline (so they land in different OT-SVG documents) whose shapes
    use one and the same userSpaceOnUse gradient; the second one first defines another
    gradient, so that a gradient id carried over from the first document would name the wrong
    definition (or none)"""
    vb = glyphs[0].viewbox
    x, y, w, h = vb
    base = 0xE300 + len(glyphs)
    stops = e2e._stops(rng)
    mk = lambda: e2e.Linear((x + 0.1 * w, y + 0.2 * h), (x + 0.9 * w, y + 0.6 * h), list(stops), "userSpaceOnUse", None, "pad")
    tri = [(x + int(0.2 * w), y + int(0.2 * h)), (x + int(0.8 * w), y + int(0.35 * h)), (x + int(0.3 * w), y + int(0.8 * h))]
    quad = [(x + int(0.15 * w), y + int(0.5 * h)), (x + int(0.85 * w), y + int(0.45 * h)), (x + int(0.7 * w), y + int(0.9 * h)), (x + int(0.2 * w), y + int(0.8 * h))]
    pent = [(x + int(0.5 * w), y + int(0.1 * h)), (x + int(0.9 * w), y + int(0.4 * h)), (x + int(0.75 * w), y + int(0.9 * h)), (x + int(0.25 * w), y + int(0.9 * h)), (x + int(0.1 * w), y + int(0.4 * h))]
    other = e2e.Linear((x, y), (x + w, y), e2e._stops(rng), "userSpaceOnUse", None, "pad")
    glyphs.append(e2e.GlyphSpec(vb, [e2e.Shape(tri, mk(), 1.0)], (base,)))
    glyphs.append(e2e.GlyphSpec(vb, [e2e.Shape(pent, other, 1.0), e2e.Shape(quad, mk(), 1.0)], (base + 1,)))


def _gen_otsvg(rng, i=None):
    # cases 0..5 of every 8 hold one fixed scenario each (on a picosvg build); the rest is random
    forced = {0: "donor-same", 1: "donor-cross", 2: "grad-docs", 3: "sibling", 4: "prefix", 5: "notdef-source", 6: "dotted-names", 7: "glyph-ids-in-source"}.get(i % 8) if i is not None else None
    fmt = rng.choice(["picosvg", "picosvg", "picosvgz", "untouchedsvg", "untouchedsvgz"])
    if forced == "notdef-source":
        fmt = rng.choice(["untouchedsvg", "picosvg", "untouchedsvgz"])
    elif forced == "glyph-ids-in-source":
        fmt = rng.choice(["untouchedsvg", "untouchedsvgz", "untouchedsvg", "picosvg"])
    elif forced:
        fmt = rng.choice(["picosvg", "picosvg", "picosvgz"])
    over_ = _cfg_variants(rng, fmt)
    if not forced and rng.random() < 0.2:
        over_["reuse_tolerance"] = rng.choice([-1, -1, -0.25, -3])
    glyphs = e2e.gen_glyphset(rng, n_glyphs=rng.randint(2, 4) if forced else None)
    if forced == "sibling" or rng.random() < 0.2:
        _add_sibling_radials(rng, glyphs)
    if forced in ("donor-same", "donor-cross"):
        _add_default_paint_donor(rng, glyphs, cross=forced == "donor-cross")
    elif rng.random() < 0.15:
        _add_default_paint_donor(rng, glyphs)
    if forced == "grad-docs" or rng.random() < 0.15:
        _add_same_gradient_in_other_documents(rng, glyphs)
    if forced == "glyph-ids-in-source":
        # sources extracted from an OT-SVG font (or drawn Adobe-style) carry id="glyph<N>" on
        # their root; the colour glyphs of this build are glyphs 2, 3, ... (after .notdef, .space)
        # (which glyph id a source gets is only known after the build: the root carries one
        # candidate, empty groups carry the others)
        for k, g_ in enumerate(glyphs):
            g_.root_id = f"glyph{2 + k}"
            g_.extra_ids = [f"glyph{n_}" for n_ in range(2, 10) if n_ != 2 + k]
    if forced == "notdef-source":
        # artwork for .notdef (a source mapped to the glyph name .notdef by the glyph map),
        # not the first input
        nd = e2e.GlyphSpec(glyphs[0].viewbox, [e2e.Shape(e2e._poly(rng, glyphs[0].viewbox), e2e.Solid(e2e._rgb(rng)), 1.0)], ())
        nd.name = ".notdef"
        glyphs.insert(rng.randint(1, len(glyphs)), nd)
    if forced == "dotted-names" and len(glyphs) >= 2:
        # glyph names given by the glyph map may contain dots ("flag" / "flag.alt"); the names
        # of shared paths are "<glyph name>.<n>", so the owner of a path is everything before
        # the LAST dot -- and here the two glyphs share a shape
        glyphs[0].name, glyphs[1].name = rng.choice([("flag.alt", "flag"), ("flag", "flag.alt"), ("a.b.c", "zed")])
        if glyphs[0].viewbox != glyphs[1].viewbox:
            vb = glyphs[0].viewbox
            glyphs[1] = e2e.GlyphSpec(vb, [e2e.Shape(e2e._poly(rng, vb), e2e.Solid(e2e._rgb(rng)), 1.0)], glyphs[1].codepoints)
            glyphs[1].name = {"flag.alt": "flag", "flag": "flag.alt", "a.b.c": "zed"}[glyphs[0].name]
        sh = next((x for x in e2e.all_shapes(glyphs[0]) if isinstance(x.fill, e2e.Solid)), None)
        if sh is None:
            sh = e2e.Shape(e2e._poly(rng, glyphs[0].viewbox), e2e.Solid(e2e._rgb(rng)), 1.0)
            glyphs[0].items.append(sh)
        glyphs[1].items.append(e2e.Shape([(px + 3, py + 2) for px, py in sh.pts], e2e.Solid(e2e._rgb(rng)), 1.0))
    if forced == "prefix" or rng.random() < 0.3:
        # glyph names that are prefixes of one another (a sequence and its leading
        # codepoint), in either input order
        seqs = rng.choice([[(0x1F44B, 0x1F3FB), (0x1F44B,)], [(0x1F468,), (0x1F468, 0x200D, 0x1F469)], [(0x41, 0x42), (0x41,), (0x41, 0x42, 0x43)]])
        seqs = list(seqs)
        rng.shuffle(seqs)
        if forced == "prefix":
            # deterministic by case index: the longer name first in every other forced case
            # (the shape is then owned by the glyph whose name the other's name is a prefix of)
            seqs.sort(key=len, reverse=(i // 8) % 2 == 0)
        for g, cps in zip(glyphs, seqs):
            g.codepoints = cps
        if forced == "prefix" and len(glyphs) >= 2:
            # ... and the two prefix-related glyphs share a shape (reuse spans the glyphs)
            if glyphs[0].viewbox != glyphs[1].viewbox:
                vb = glyphs[0].viewbox
                glyphs[1] = e2e.GlyphSpec(vb, [e2e.Shape(e2e._poly(rng, vb), e2e.Solid(e2e._rgb(rng)), 1.0)], glyphs[1].codepoints)
            sh = next((x for x in e2e.all_shapes(glyphs[0]) if isinstance(x.fill, e2e.Solid)), None)
            if sh is None:
                sh = e2e.Shape(e2e._poly(rng, glyphs[0].viewbox), e2e.Solid(e2e._rgb(rng)), 1.0)
                glyphs[0].items.append(sh)
            glyphs[1].items.append(e2e.Shape([(px + 2, py + 1) for px, py in sh.pts], e2e.Solid(e2e._rgb(rng)), 1.0))
    return {"glyphs": glyphs, "overrides": over_}


def _svg_docs(font):
    from lxml import etree
    import gzip

    docs = []
    for doc in font["SVG "].docList:
        data = doc.data
        if isinstance(data, bytes) and data[:2] == b"\x1f\x8b":
            data = gzip.decompress(data)
        if isinstance(data, str):
            data = data.encode("utf-8")
        docs.append((doc.startGlyphID, doc.endGlyphID, etree.fromstring(data)))
    return docs


def _otsvg_eval(font):
    docs = _svg_docs(font)
    order = font.getGlyphOrder()

    def ev(gi, name, q):
        gid = order.index(name)
        cover = [d for d in docs if d[0] <= gid <= d[1]]
        if len(cover) != 1:
            return f"glyph id {gid} covered by {len(cover)} documents"
        root = cover[0][2]
        els = [el for el in root.iter() if el.attrib.get("id") == f"glyph{gid}"]
        if len(els) != 1:
            return f"{len(els)} elements with id glyph{gid}"
        return e2e.SvgEval(root).color(els[0], q)

    return ev


def _otsvg_structure(result):
    """C07 clauses for the SVG table"""
    font = result["font"]
    docs = _svg_docs(font)
    problems = []
    prev_end = -1
    for start, end, root in docs:
        if start <= prev_end or end < start:
            problems.append(f"docList not sorted/disjoint at [{start},{end}]")
        prev_end = end
        ids = [el.attrib["id"] for el in root.iter() if "id" in el.attrib]
        if len(ids) != len(set(ids)):
            problems.append(f"duplicate ids in doc [{start},{end}]")
        idset = set(ids)
        glyph_els = {el.attrib["id"]: el for el in root.iter() if el.attrib.get("id", "").startswith("glyph")}
        inside = {}
        for gid_, gel in glyph_els.items():
            for el in gel.iter():
                if "id" in el.attrib and el is not gel:
                    inside[el.attrib["id"]] = gid_
        for el in root.iter():
            h = el.attrib.get(e2e.XLINK) or el.attrib.get("href")
            if h is not None:
                if not h.startswith("#") or h[1:] not in idset:
                    problems.append(f"dangling href {h} in doc [{start},{end}]")
                elif h[1:] in inside:
                    # the referencing element must live in the same glyph element
                    owner = None
                    par = el
                    while par is not None:
                        if par.attrib.get("id", "").startswith("glyph"):
                            owner = par.attrib["id"]
                            break
                        par = par.getparent()
                    if owner != inside[h[1:]]:
                        problems.append(f"{owner} references {h} inside {inside[h[1:]]}")
            f = el.attrib.get("fill", "")
            if f.startswith("url(") and f[f.index("#") + 1 : f.index(")")] not in idset:
                problems.append(f"dangling fill {f}")
        for gid in range(start, end + 1):
            if f"glyph{gid}" not in idset:
                problems.append(f"no element glyph{gid} in doc [{start},{end}]")
    return problems


@contract("nanoemoji.write_font._generate_color_font", props=["C02", "C07", "C06"])
class e2e_otsvg_picture:
    bounded_only = True
    gen = _gen_otsvg
    native_call = _build
    n_quick = 40
    n_thorough = 600
    ensures = {
        # exactly one element glyph<ID> in the covering document, and it renders the source
        "same-picture-at-sample-points": lambda glyphs, result: _picture_mismatches(glyphs, result, _otsvg_eval, otsvg=True) == [],
        "document-structure": lambda result: _otsvg_structure(result) == [],
        "notdef-first": lambda result: result["font"].getGlyphOrder()[0] == ".notdef",
    }


# ---------------------------------------------------------------------------- COLR -> SVG (C13)


def _colr_to_svg_mismatch(glyphs, result):
    from nanoemoji import colr_to_svg
    from picosvg.geometric_types import Rect

    font, cfg = result["font"], result["cfg"]
    ev = e2e.ColrEval(font)
    bad = []
    vb = Rect(0, 0, 100, 100)
    svgs = colr_to_svg.colr_to_svg(lambda gn: vb, font, rounding_ndigits=4)
    for g in glyphs:
        name = _name(g)
        if name not in svgs:
            bad.append((name, "no svg generated"))
            continue
        root = svgs[name].svg_root
        adv = font["hmtx"][name][0]
        # the documented mapping of the em box into the requested viewBox
        to_vb = e2e.inv(e2e.placement(tuple(vb), cfg.ascender, cfg.descender, adv))
        sv = e2e.SvgEval(root)
        src_F = e2e.placement(g.viewbox, cfg.ascender, cfg.descender, adv, tuple(cfg.transform))
        s = (cfg.ascender - cfg.descender) / g.viewbox[3]
        margin = (3.0 + 0.3 * s) / s
        if e2e.has_hard_stop(g):
            continue
        for p in e2e.sample_points(g.viewbox, 9):
            if e2e.near_edge(g, p, margin):
                continue
            q = e2e.ap(src_F, p)
            want = ev.glyph_color(name, q)
            if want is None:
                continue
            # the clip box is not part of the generated SVG: compare inside it only
            got = sv.color(root, e2e.ap(to_vb, q))
            if got is None:
                continue
            if isinstance(got, str) or not e2e.color_close(want, got):
                if not isinstance(got, str):
                    # the reference of C13 is the paint graph (not the source it was built
                    # from): what the graph paints at nearby points absorbs the rounding
                    # (+0.3: the generated SVG is rounded to 3 decimals; under a strongly
                    # non-uniform reuse transform -- gradientTransform entries ~0.14 x centre
                    # coordinates ~400 -- that moves a gradient by up to ~0.3 viewBox units,
                    # the same allowance as for OT-SVG output)
                    delta = (1.0 + 0.5 * e2e.gradient_t_at(g, p)) / s + 0.3
                    if delta < margin + 0.3 and e2e.within_envelope(g, p, got, delta, color_at=lambda p_: ev.glyph_color(name, e2e.ap(src_F, p_))):
                        continue
                bad.append((name, p, want, got))
    return bad


def _gen_colr1_shared_paints(rng):
    """as _gen_colr1, and often two colour glyphs paint an identical shape with an
    identical gradient (every glyph becomes its own SVG document and must define it)"""
    a = _gen_colr1(rng)
    glyphs = a["glyphs"]
    if rng.random() < 0.6:
        vb = glyphs[0].viewbox
        pts = e2e._poly(rng, vb)
        fill = None
        while fill is None or isinstance(fill, e2e.Solid):
            fill = e2e._fill(rng, pts, True)
        donor = e2e.Shape(pts, fill, rng.choice([1.0, 0.5]))
        glyphs[0].items.append(donor)
        extra = e2e.GlyphSpec(vb, [], (0xE100,))
        if rng.random() < 0.5:
            # a different gradient first, so that a stale id would resolve to the wrong one
            p2 = e2e._poly(rng, vb)
            f2 = None
            while f2 is None or isinstance(f2, e2e.Solid):
                f2 = e2e._fill(rng, p2, True)
            extra.items.append(e2e.Shape(p2, f2, 1.0))
        extra.items.append(e2e.Shape(list(pts), fill, donor.opacity))
        glyphs.append(extra)
        if rng.random() < 0.5:
            glyphs.append(e2e.GlyphSpec(vb, [e2e.Shape(list(pts), fill, donor.opacity)], (0xE101,)))
    return a


@contract("nanoemoji.colr_to_svg.colr_to_svg", props=["C13"])
class e2e_colr_to_svg:
    bounded_only = True
    gen = _gen_colr1_shared_paints
    native_call = _build
    n_quick = 30
    n_thorough = 400
    known_witnesses = {"F21": _f20_witness}
    ensures = {
        "svg-renders-what-the-paint-graph-renders": lambda glyphs, result: _colr_to_svg_mismatch(glyphs, result) == [],
    }


def _gen_mixed_records(rng, i=0):
    """solid, opaque, un-reused COLRv1 glyphs; the first one is then stored as a v0-style
    record (BaseGlyphRecord + LayerRecords) inside the version 1 table -- what
    fontTools.colorLib.buildCOLR(version=None), ufo2ft and fontmake write for plainly layered
    glyphs"""
    glyphs = e2e.gen_glyphset(rng, n_glyphs=rng.randint(2, 3), gradients=False, groups=False, reuse=False)
    for g in glyphs:
        for sh in e2e.all_shapes(g):
            sh.opacity = 1.0
            sh.fill.alpha = 1.0
            sh.fill.index = None
            if getattr(sh.fill, "current", False):
                sh.fill = e2e.Solid((10, 20, 30), 1.0)
    # every other case keeps the glyph's BaseGlyphList entry next to its v0 record (the
    # arrangement the specification describes for v0-only renderers: the v1 entry wins)
    return {"glyphs": glyphs, "overrides": dict(color_format="glyf_colr_1", output_file="out.ttf", reuse_tolerance=-1), "both": i % 2 == 1}


def _build_with_v0_records(glyphs, overrides, both=False):
    from fontTools.ttLib.tables import otTables as ot
    from fontTools import ttLib
    import io

    r = _build(glyphs, overrides)
    font = r["font"]
    table = font["COLR"].table
    target = _name(glyphs[0])
    rec = [x for x in table.BaseGlyphList.BaseGlyphPaintRecord if x.BaseGlyph == target][0]
    leaves = []

    def walk(p):
        if p.Format == ot.PaintFormat.PaintColrLayers:
            for q in table.LayerList.Paint[p.FirstLayerIndex : p.FirstLayerIndex + p.NumLayers]:
                walk(q)
        elif p.Format == ot.PaintFormat.PaintGlyph and p.Paint.Format == ot.PaintFormat.PaintSolid:
            leaves.append((p.Glyph, p.Paint.PaletteIndex))
        else:
            raise AssertionError(f"unexpected paint format {p.Format} in a solid, un-reused glyph")

    walk(rec.Paint)
    if not both:
        table.BaseGlyphList.BaseGlyphPaintRecord.remove(rec)
        table.BaseGlyphList.BaseGlyphCount = len(table.BaseGlyphList.BaseGlyphPaintRecord)
    table.BaseGlyphRecordArray = ot.BaseGlyphRecordArray()
    b = ot.BaseGlyphRecord()
    b.BaseGlyph, b.FirstLayerIndex, b.NumLayers = target, 0, len(leaves)
    table.BaseGlyphRecordArray.BaseGlyphRecord = [b]
    table.BaseGlyphRecordCount = 1
    table.LayerRecordArray = ot.LayerRecordArray()
    table.LayerRecordArray.LayerRecord = []
    for gname, idx in leaves:
        l = ot.LayerRecord()
        l.LayerGlyph, l.PaletteIndex = gname, idx
        table.LayerRecordArray.LayerRecord.append(l)
    table.LayerRecordCount = len(leaves)
    if not both and getattr(table, "ClipList", None) and target in table.ClipList.clips:
        del table.ClipList.clips[target]
    buf = io.BytesIO()
    font.save(buf)
    r["font"] = ttLib.TTFont(io.BytesIO(buf.getvalue()), lazy=False)
    return r


@contract("nanoemoji.colr_to_svg.colr_to_svg", props=["C13", "C12"])
class e2e_colr_to_svg_v0_records_in_v1_table:
    bounded_only = True
    gen = _gen_mixed_records
    native_call = _build_with_v0_records
    n_quick = 10
    n_thorough = 100
    ensures = {
        # every colour glyph of the font gets its SVG -- also the ones a version 1 table
        # stores as v0-style layer records -- and colr_glyphs lists it
        "svg-renders-what-the-paint-graph-renders": lambda glyphs, result: _colr_to_svg_mismatch(glyphs, result) == [],
        "listed-as-colour-glyph-once": lambda glyphs, result: _listed(glyphs, result),
    }


def _listed(glyphs, result):
    from nanoemoji import colr_to_svg

    font = result["font"]
    ids = list(colr_to_svg.colr_glyphs(font))
    # every colour glyph once (maximum_color makes one build edge per listed glyph)
    return len(ids) == len(set(ids)) and {font.getGlyphName(i) for i in ids} >= {_name(g) for g in glyphs if list(e2e.all_shapes(g))}


def _gen_colr_glyph_refs(rng, i=0):
    """solid-filled COLRv1 glyphs; the last one is then re-pointed at another colour glyph
    through transform paints (a third-party-style paint graph: PaintColrGlyph under
    PaintTranslate / PaintScale / PaintRotate, also inside a layer list)"""
    over_ = _cfg_variants(rng, "glyf_colr_1")
    glyphs = e2e.gen_glyphset(rng, n_glyphs=rng.randint(2, 3), gradients=rng.random() < 0.4, groups=False, reuse=False)
    kinds = [rng.choice(["translate", "scale", "rotate", "scale-around", "translate-translate"]) for _ in range(rng.randint(1, 2))]
    params = [(rng.choice([-120, 60, 200]), rng.choice([-80, 40, 150]), rng.choice([0.5, 0.75, 1.5]), rng.choice([0.5, 1.25]), rng.choice([30, 90, -45])) for _ in kinds]
    # every third case: the whole graph is additionally clipped by an outline glyph
    # (PaintGlyph whose child is a paint graph, not a fill), itself possibly under a translate
    clip = {"under": rng.choice([None, (40, -30), (-60, 20)]), "which": rng.randint(0, 3)} if i % 3 == 2 else None
    return {"glyphs": glyphs, "overrides": over_, "refs": {"kinds": kinds, "params": params, "in_layers": rng.random() < 0.5, "clip": clip}}


def _build_with_refs(glyphs, overrides, refs):
    from fontTools.ttLib.tables import otTables as ot

    r = _build(glyphs, overrides)
    font = r["font"]
    F = ot.PaintFormat

    def P(fmt, **kw):
        p = ot.Paint()
        p.Format = int(fmt)
        for k, v in kw.items():
            setattr(p, k, v)
        return p

    target, donor = _name(glyphs[-1]), _name(glyphs[0])
    paint = P(F.PaintColrGlyph, Glyph=donor)
    for kind, (dx, dy, sx, sy, ang) in zip(refs["kinds"], refs["params"]):
        if kind == "translate":
            paint = P(F.PaintTranslate, dx=dx, dy=dy, Paint=paint)
        elif kind == "scale":
            paint = P(F.PaintScale, scaleX=sx, scaleY=sy, Paint=paint)
        elif kind == "rotate":
            paint = P(F.PaintRotate, angle=ang / 180, Paint=paint)
        elif kind == "scale-around":
            paint = P(F.PaintScaleAroundCenter, scaleX=sx, scaleY=sy, centerX=dx, centerY=dy, Paint=paint)
        else:
            paint = P(F.PaintTranslate, dx=dy, dy=dx, Paint=P(F.PaintTranslate, dx=dx, dy=dy, Paint=paint))
    table = font["COLR"].table
    rec = [x for x in table.BaseGlyphList.BaseGlyphPaintRecord if x.BaseGlyph == target][0]
    if refs["in_layers"] and table.LayerList is not None:
        # [ reference, then the glyph's own former paint ] as a new layer run
        first = len(table.LayerList.Paint)
        table.LayerList.Paint.extend([paint, rec.Paint])
        table.LayerList.LayerCount = len(table.LayerList.Paint)
        paint = P(F.PaintColrLayers, FirstLayerIndex=first, NumLayers=2)
    if refs.get("clip"):
        outlines = []

        def walk(p_):
            if p_.Format == F.PaintGlyph:
                outlines.append(p_.Glyph)
            if p_.Format == F.PaintColrLayers:
                for q_ in table.LayerList.Paint[p_.FirstLayerIndex : p_.FirstLayerIndex + p_.NumLayers]:
                    walk(q_)
            for attr in ("Paint", "SourcePaint", "BackdropPaint"):
                if getattr(p_, attr, None) is not None:
                    walk(getattr(p_, attr))

        for x in table.BaseGlyphList.BaseGlyphPaintRecord:
            walk(x.Paint)
        outlines = sorted(set(outlines))
        paint = P(F.PaintGlyph, Glyph=outlines[refs["clip"]["which"] % len(outlines)], Paint=paint)
        if refs["clip"]["under"]:
            paint = P(F.PaintTranslate, dx=refs["clip"]["under"][0], dy=refs["clip"]["under"][1], Paint=paint)
    rec.Paint = paint
    if getattr(table, "ClipList", None) and target in table.ClipList.clips:
        del table.ClipList.clips[target]
    r["target"] = target
    return r


def _colr_glyph_ref_mismatch(glyphs, result):
    from nanoemoji import colr_to_svg
    from picosvg.geometric_types import Rect

    font, cfg, name = result["font"], result["cfg"], result["target"]
    ev = e2e.ColrEval(font)
    vb = Rect(0, 0, 120, 100)
    svgs = colr_to_svg.colr_to_svg(lambda gn: vb, font, rounding_ndigits=4)
    if name not in svgs:
        return [(name, "no svg generated")]
    root = svgs[name].svg_root
    adv = font["hmtx"][name][0]
    to_vb = e2e.inv(e2e.placement(tuple(vb), cfg.ascender, cfg.descender, adv))
    sv = e2e.SvgEval(root)
    bad = []
    n = 13
    lo_x, hi_x = -0.3 * adv, 1.3 * adv
    d = 6.0
    for i in range(n):
        for j in range(n):
            q = (lo_x + (hi_x - lo_x) * (i + 0.5) / n, cfg.descender + (cfg.ascender - cfg.descender) * (j + 0.5) / n)
            want = ev.glyph_color(name, q)
            if want is None:
                continue
            # only where the paint graph is locally constant (away from outline edges);
            # gradients are compared through their solid-equivalent tolerance below
            near = [ev.glyph_color(name, (q[0] + ddx, q[1] + ddy)) for ddx, ddy in ((d, 0), (-d, 0), (0, d), (0, -d), (d, d), (-d, -d), (d, -d), (-d, d))]
            if any(w is None or not e2e.color_close(want, w, tol_rgb=6, tol_a=0.03) for w in near):
                continue
            got = sv.color(root, e2e.ap(to_vb, q))
            if got is None:
                continue
            if isinstance(got, str) or not e2e.color_close(want, got, tol_rgb=12, tol_a=0.05):
                bad.append((name, tuple(round(v, 1) for v in q), want, got))
    return bad


@contract("nanoemoji.colr_to_svg.colr_to_svg", props=["C13"])
class e2e_colr_to_svg_colr_glyph_refs:
    bounded_only = True
    gen = _gen_colr_glyph_refs
    native_call = _build_with_refs
    n_quick = 25
    n_thorough = 300
    ensures = {
        # a colour-glyph reference under transform paints is drawn through those transforms
        # exactly once
        "referenced-glyph-drawn-through-its-transforms": lambda glyphs, result: _colr_glyph_ref_mismatch(glyphs, result) == [],
    }


# ---------------------------------------------------------------------------- palette (C15)


def _gen_palette(rng):
    fmt = rng.choice(["glyf_colr_1", "glyf_colr_0"])
    glyphs = e2e.gen_glyphset(rng, gradients=False, groups=False, reuse=False)
    if fmt == "glyf_colr_0":
        for g in glyphs:
            for sh in e2e.all_shapes(g):
                if getattr(sh.fill, "current", False):
                    sh.opacity = 1.0  # known finding F14 (witness recorded on e2e_colrv0_picture)
    used = {}
    for g in glyphs:
        for sh in e2e.all_shapes(g):
            f = sh.fill
            if rng.random() < 0.5:
                if getattr(f, "current", False):
                    continue
                f.alpha = 1.0
                # COLRv0 keeps alpha in the CPAL entry: one index cannot serve one colour at
                # two opacities there (that input is a conflict and is rightly rejected)
                key = (f.rgb, sh.opacity if fmt == "glyf_colr_0" else None)
                if key not in used:
                    free = [i for i in range(8) if i not in used.values()]
                    if not free:
                        continue
                    used[key] = rng.choice(free)
                f.index = used[key]
    return {"glyphs": glyphs, "overrides": dict(color_format=fmt, output_file="out.ttf")}


def _palette_problems(glyphs, result):
    font = result["font"]
    pal = font["CPAL"].palettes[0]
    v1 = font["COLR"].version == 1
    bad = []
    declared = {}
    seen = set()
    for g in glyphs:
        for sh in e2e.all_shapes(g):
            f = sh.fill
            if getattr(f, "current", False):
                # the foreground colour is index 0xFFFF, never a palette entry (checked below)
                continue
            if not isinstance(f, e2e.Solid):
                # every stop colour is a palette colour: opaque in COLRv1, with the stop's
                # alpha x the shape's opacity in COLRv0
                for _, rgb_, a_ in f.stops:
                    seen.add((rgb_, 255 if v1 else round(a_ * sh.opacity * 255)))
                continue
            a = 1.0 if v1 else f.alpha * sh.opacity
            seen.add((f.rgb, round(a * 255)))
            if f.index is not None:
                declared[f.index] = (f.rgb, round(a * 255))
    if len(pal) == 0:
        bad.append("empty palette")
    for idx, (rgb, a255) in declared.items():
        if idx >= len(pal):
            bad.append(("declared index beyond the palette", idx))
            continue
        c = pal[idx]
        if (c.red, c.green, c.blue) != rgb or abs(c.alpha - a255) > 1:
            bad.append(("declared index holds another colour", idx, (c.red, c.green, c.blue, c.alpha), rgb, a255))
    have = {((c.red, c.green, c.blue), c.alpha) for c in pal}
    for rgb, a255 in seen:
        if not any(h[0] == rgb and abs(h[1] - a255) <= 1 for h in have):
            bad.append(("colour missing from the palette", rgb, a255))
    if v1 and any(c.alpha != 255 for c in pal):
        bad.append("COLRv1 palette entry that is not opaque")
    for i, c in enumerate(pal):
        if i not in declared and not any(h == ((c.red, c.green, c.blue), c.alpha) for h in {(s_[0], s_[1]) for s_ in seen}) and (c.red, c.green, c.blue, c.alpha) != (0, 0, 0, 255):
            if not any(s_[0] == (c.red, c.green, c.blue) and abs(s_[1] - c.alpha) <= 1 for s_ in seen):
                bad.append(("gap that is not black", i, (c.red, c.green, c.blue, c.alpha)))
    return bad


def _gen_palette_gradients(rng):
    fmt = rng.choice(["glyf_colr_1", "glyf_colr_0", "glyf_colr_0"])
    glyphs = e2e.gen_glyphset(rng, gradients=True, groups=False, reuse=False)
    for g in glyphs:
        for sh in e2e.all_shapes(g):
            if getattr(sh.fill, "current", False):
                sh.opacity = 1.0  # F14's class stays with its recorded witness
            elif not isinstance(sh.fill, e2e.Solid) and rng.random() < 0.5:
                sh.opacity = rng.choice([0.5, 0.25])
    return {"glyphs": glyphs, "overrides": dict(color_format=fmt, output_file="out.ttf")}


@contract("nanoemoji.write_font._generate_color_font", props=["C15"])
class e2e_palette_with_gradients:
    bounded_only = True
    gen = _gen_palette_gradients
    native_call = _build
    n_quick = 30
    n_thorough = 400
    ensures = {
        # gradient stops are palette colours too (COLRv0: with their alpha)
        "palette-holds-every-stop-colour": lambda glyphs, result: _palette_problems(glyphs, result) == [],
    }


@contract("nanoemoji.write_font._generate_color_font", props=["C15"])
class e2e_palette:
    bounded_only = True
    gen = _gen_palette
    native_call = _build
    n_quick = 30
    n_thorough = 400
    ensures = {
        "palette-honours-indices-and-holds-every-colour": lambda glyphs, result: _palette_problems(glyphs, result) == [],
        "same-picture-at-sample-points": lambda glyphs, result: _picture_mismatches(glyphs, result, _colr_eval) == [],
    }


# ---------------------------------------------------------------------------- congruent copies (C19)


def _gen_copies(rng):
    import math

    vb = (0, 0, 128, 128)
    kind = rng.choice(["tri", "quad", "L"])
    if kind == "tri":
        base = [(20, 20), (44, 26), (28, 45)]
    elif kind == "quad":
        base = [(20, 20), (46, 24), (42, 44), (24, 40)]
    else:
        base = [(20, 20), (50, 20), (50, 30), (30, 30), (30, 50), (20, 50)]
    copies = [base]
    for _ in range(rng.randint(1, 3)):
        cx, cy = 35, 35
        k = rng.choice(["t", "rot", "flip", "vflip"])
        if k == "t":
            m = (1, 0, 0, 1, 0, 0)
        elif k == "rot":
            a = math.radians(rng.choice([30, 45, 90, 180, -60]))
            ca, sa = math.cos(a), math.sin(a)
            m = (ca, sa, -sa, ca, cx - ca * cx + sa * cy, cy - sa * cx - ca * cy)
        elif k == "flip":
            m = (-1, 0, 0, 1, 2 * cx, 0)
        else:
            m = (1, 0, 0, -1, 0, 2 * cy)
        dx, dy = rng.choice([(40, 0), (0, 50), (55, 48), (30, 60)])
        pts = [(round(x + dx, 3), round(y + dy, 3)) for x, y in e2e._xform_pts(base, m)]
        copies.append(pts)
    across = rng.random() < 0.5
    glyphs = []
    if across:
        # glyph names need not sort like the input order (the first input may be named last)
        cps = [(0xE000 + i,) for i in range(len(copies))]
        order = rng.choice(["input", "reversed", "mixed"])
        if order == "reversed":
            cps.reverse()
        elif order == "mixed":
            cps = [(0x23, 0x20E3), (0x1F170,), (0x41,), (0x1F171,)][: len(copies)]
        for i, pts in enumerate(copies):
            glyphs.append(e2e.GlyphSpec(vb, [e2e.Shape(pts, e2e.Solid(e2e._rgb(rng)))], cps[i]))
    else:
        glyphs.append(e2e.GlyphSpec(vb, [e2e.Shape(pts, e2e.Solid(e2e._rgb(rng))) for pts in copies], (0xE000,)))
    fmt = rng.choice(["glyf_colr_1", "picosvg"])
    return {"glyphs": glyphs, "overrides": dict(color_format=fmt, output_file="out.ttf", reuse_tolerance=rng.choice([0.1, 0.1, -1, -0.5]))}


def _storage_problems(glyphs, overrides, result):
    font = result["font"]
    n = sum(len(list(e2e.all_shapes(g))) for g in glyphs)
    reuse = overrides["reuse_tolerance"] >= 0
    bad = []
    if "COLR" in font:
        ev = e2e.ColrEval(font)
        names = set()
        for g in glyphs:
            ev.leaves = []
            ev.glyph_color(_name(g), (1e9, 1e9))  # walk the graph
            # collect every PaintGlyph reachable

            def walk(p):
                if p.Format == 10:
                    names.add(p.Glyph)
                for a in ("Paint", "SourcePaint", "BackdropPaint"):
                    ch = getattr(p, a, None)
                    if ch is not None:
                        walk(ch)
                if p.Format == 1:
                    for i in range(p.FirstLayerIndex, p.FirstLayerIndex + p.NumLayers):
                        walk(ev.layers[i])

            walk(ev.base[_name(g)])
        if reuse and len(names) != 1:
            bad.append(("congruent copies drawn from several outline glyphs", sorted(names)))
        if not reuse and len(names) != n:
            bad.append(("reuse disabled but outlines are shared", sorted(names), n))
    else:
        paths = uses = 0
        for s_, e_, root in _svg_docs(font):
            for el in root.iter():
                t = e2e._local(el)
                paths += t == "path"
                uses += t == "use"
        if reuse and (paths != 1 or uses < n - 1):
            bad.append(("congruent copies are not drawn through <use> of one path", paths, uses, n))
        if not reuse and paths != n:
            bad.append(("reuse disabled but paths are shared", paths, n))
    return bad


def _k10_witness():
    vb = (0, 0, 24, 24)
    pts = [(9.30707, 6.25855), (8.29076, 8.13726), (5.45235, 8.33689), (3.42643, 5.35735), (4.58806, 3.41625), (8.79886, 3.30082)]
    copy_ = [(round(x + 3.1505, 5), round(y + 4.5359, 5)) for x, y in pts]
    g = e2e.GlyphSpec(vb, [e2e.Shape(pts, e2e.Solid((200, 10, 10)), 1.0), e2e.Shape(copy_, e2e.Solid((10, 10, 200)), 1.0)], (0xE000,))
    return {"glyphs": [g], "overrides": dict(color_format="glyf_colr_1", output_file="out.ttf", reuse_tolerance=0.1)}


@contract("nanoemoji.write_font._generate_color_font", props=["C19"])
class e2e_congruent_copies:
    bounded_only = True
    gen = _gen_copies
    native_call = _build
    n_quick = 40
    n_thorough = 600
    known_witnesses = {"K10": _k10_witness}
    ensures = {
        # copies that differ by translation, rotation or reflection are stored once when reuse
        # is on, and separately only when it is disabled
        "stored-once": lambda glyphs, overrides, result: _storage_problems(glyphs, overrides, result) == [],
        "same-picture-at-sample-points": lambda glyphs, overrides, result: _picture_mismatches(
            glyphs, result, _colr_eval if overrides["color_format"] == "glyf_colr_1" else _otsvg_eval, otsvg=overrides["color_format"] != "glyf_colr_1"
        )
        == [],
    }
