"""svg.py -- OT-SVG documents (C02, C06, C07, C16)."""
from vlib import *
import spec
from c_common import AFF, PT
from c_paint import LIN, RAD


@contract("nanoemoji.svg._ntos", props=["C02"])
class ntos3:
    # number formatting (picosvg ntos of the 3-digit rounded value): outside the proved subset
    assumed = True
    args = {"n": Real}
    returns = Str
    ensures = {"function-of-the-number": lambda n, result: result == ufn("ntos_round3", "str", n)}
    native = False
    note = "text of round(n, 3)"


REUSE = Record("nanoemoji.glyph_reuse.ReuseResult")
XLINK = "{http://www.w3.org/1999/xlink}href"


def _M(A):
    """the matrix left on the <use> once the translation went into x/y:  A o T(-e, -f)"""
    return spec.mul(spec.aff(A), spec.translate(-A.e, -A.f))


@contract("nanoemoji.svg._create_use_element", props=["C02", "C06", "C19"])
class create_use_element:
    args = {"svg": Obj(svg_root=Obj(nsmap=Const({}))), "parent_el": Elem("g"), "reuse_result": REUSE}
    ensures = {
        "child-of-parent": lambda parent_el, result: len(parent_el.children) == 1 and same(parent_el.children[0], result) and result.tag == "use",
        "references-the-donor": lambda reuse_result, result: result.attrib[XLINK] == "#" + reuse_result.glyph_name,
        # x / y carry the translation (omitted when zero, also when negative!)
        "x": lambda reuse_result, result: iff("x" in result.attrib, reuse_result.transform.e != 0)
        and ("x" not in result.attrib or result.attrib["x"] == ufn("ntos_round3", "str", reuse_result.transform.e)),
        "y": lambda reuse_result, result: iff("y" in result.attrib, reuse_result.transform.f != 0)
        and ("y" not in result.attrib or result.attrib["y"] == ufn("ntos_round3", "str", reuse_result.transform.f)),
        # the remaining matrix M = A o T(-e,-f); with L-use: M o T(x, y) = A
        "matrix": lambda reuse_result, result: iff("transform" in result.attrib, _M(reuse_result.transform) != spec.ID)
        and ("transform" not in result.attrib or result.attrib["transform"] == ufn("svg_matrix_string", "str", _M(reuse_result.transform))),
        "no-other-attributes": lambda result: all(k in (XLINK, "x", "y", "transform") for k in result.attrib),
    }
    native = False


@lemma("L-use", props=["C02", "C06"])
class L_use:
    """SVG <use x y transform=M>: the referenced content is drawn through M o T(x, y).  With
    M = A o T(-e, -f) and (x, y) = (e, f) (the translation of A) that is A."""

    args = {"A": TupleOf(Real, Real, Real, Real, Real, Real)}
    statement = lambda A: spec.mul(spec.mul(A, spec.translate(-A[4], -A[5])), spec.translate(A[4], A[5])) == A


def _lin3(g):
    return (tuple(g.p0), tuple(g.p1), tuple(g.p2))


@contract("nanoemoji.svg._map_gradient_coordinates", props=["C02", "C13", "C16"])
class map_gradient_coordinates_linear:
    args = {"paint": LIN, "affine": AFF}
    ensures = {
        "three-points-mapped": lambda paint, affine, result: _lin3(result) == tuple(spec.pt(spec.aff(affine), p) for p in _lin3(paint)),
        "colour-line-kept": lambda paint, result: same(result.stops, paint.stops) and same(result.extend, paint.extend),
    }
    native_skip = ("three-points-mapped",)
    native_ensures = {
        "three-points-mapped~": lambda paint, affine, result: close(_lin3(result), tuple(spec.pt(spec.aff(affine), p) for p in _lin3(paint)), 1e-6 * (1 + sum(abs(v) for v in affine)) * (1 + sum(abs(v) for p in _lin3(paint) for v in p)))
    }


@contract("nanoemoji.svg._map_gradient_coordinates", props=["C02", "C13", "C16"])
class map_gradient_coordinates_radial:
    args = {"paint": RAD, "affine": AFF}
    requires = [lambda paint: paint.r0 >= 0 and paint.r1 >= 0]
    # circles stay circles only under a uniform scale (+ flip) and translation: anything else
    # is an error, never a silently wrong radius
    raises = {"ValueError": lambda affine: affine.a == 0 or abs(affine.a) != abs(affine.d)}
    ensures = {
        "centres-mapped": lambda paint, affine, result: (tuple(result.c0), tuple(result.c1))
        == (spec.pt(spec.aff(affine), paint.c0), spec.pt(spec.aff(affine), paint.c1)),
        # radii are lengths: scaled by |s|, never negative (SVG: a negative r is an error and
        # nothing is painted)
        "radii-scaled": lambda paint, affine, result: result.r0 == abs(affine.a) * paint.r0 and result.r1 == abs(affine.a) * paint.r1,
        "radii-non-negative": lambda result: result.r0 >= 0 and result.r1 >= 0,
        "colour-line-kept": lambda paint, result: same(result.stops, paint.stops) and same(result.extend, paint.extend),
    }
    native_skip = ("centres-mapped", "radii-scaled")
    native_requires = lambda affine: affine.b == 0 and affine.c == 0


# ---------------------------------------------------------------------------- gradient definitions

COLOR = Record("nanoemoji.colors.Color")
STOP = Record("nanoemoji.paint.ColorStop", color=COLOR)
_EXT = OneOf(*[EnumConst("nanoemoji.paint.Extend", n) for n in ("PAD", "REPEAT", "REFLECT")])
LIN2 = Record("nanoemoji.paint.PaintLinearGradient", extend=_EXT, stops=TupleOf(STOP, STOP), p0=PT, p1=PT, p2=PT)
RAD2 = Record("nanoemoji.paint.PaintRadialGradient", extend=_EXT, stops=TupleOf(STOP, STOP), c0=PT, c1=PT, r0=Real, r1=Real)
DEFS = Elem("defs", children=Int)


@contract("nanoemoji.colors.Color.to_string", props=["C02", "C13"])
class color_to_string:
    assumed = True  # hex / named-colour formatting: string level, bounded tier only
    args = {"self": COLOR}
    returns = Str
    ensures = {"function-of-the-colour": lambda self, result: result == ufn("css_colour", "str", self.red, self.green, self.blue, self.alpha)}
    native = False
    note = "CSS text of the colour"


@contract("picosvg.svg_transform.Affine2D.tostring", props=["C02", "C13"], dep=True)
class affine_tostring:
    assumed = True
    args = {"self": AFF}
    returns = Str
    ensures = {"function-of-the-affine": lambda self, result: result == ufn("affine_text", "str", spec.aff(self))}
    native = False
    note = "SVG transform text of the affine"


def _ntos_arg(calls, k):
    return calls["nanoemoji.svg._ntos"][k]


def _dot(u, v):
    return u[0] * v[0] + u[1] * v[1]


def _cross(u, v):
    return u[0] * v[1] - u[1] * v[0]


@contract("nanoemoji.svg._define_linear_gradient", props=["C02", "C13"])
class define_linear_gradient:
    args = {"svg_defs": DEFS, "paint": LIN2, "transform": AFF}
    requires = [lambda paint: (paint.p2[0] - paint.p0[0]) != 0 or (paint.p2[1] - paint.p0[1]) != 0]
    ensures = {
        "new-last-child-with-fresh-id": lambda svg_defs, result: len(svg_defs.children) == 1
        and svg_defs.children[0].tag == "linearGradient"
        and svg_defs.children[0].attrib["id"] == result,
        # (x1, y1) = P0 and (x2, y2) = P3: the projection of P1 onto the line through P0
        # perpendicular to P0P2 (COLR's rotation point folded into an SVG two-point gradient):
        # P3 - P0 is perpendicular to P2 - P0, and P1 - P3 is parallel to P2 - P0
        "x1y1-is-p0": lambda paint, calls: (_ntos_arg(calls, 0).args.n, _ntos_arg(calls, 1).args.n) == tuple(paint.p0),
        "x2y2-is-the-projection-p3": lambda paint, calls: (
            _dot((_ntos_arg(calls, 2).args.n - paint.p0[0], _ntos_arg(calls, 3).args.n - paint.p0[1]), (paint.p2[0] - paint.p0[0], paint.p2[1] - paint.p0[1])) == 0
            and _cross((paint.p1[0] - _ntos_arg(calls, 2).args.n, paint.p1[1] - _ntos_arg(calls, 3).args.n), (paint.p2[0] - paint.p0[0], paint.p2[1] - paint.p0[1])) == 0
        ),
        "attributes-are-those-texts": lambda svg_defs, calls: all(
            svg_defs.children[0].attrib[a] == _ntos_arg(calls, i).result for (i, a) in enumerate(("x1", "y1", "x2", "y2"))
        ),
        "user-space-units": lambda svg_defs: svg_defs.children[0].attrib["gradientUnits"] == "userSpaceOnUse",
        "spread": lambda svg_defs, paint: ("spreadMethod" in svg_defs.children[0].attrib) == (paint.extend.name != "PAD")
        and ("spreadMethod" not in svg_defs.children[0].attrib or svg_defs.children[0].attrib["spreadMethod"] == paint.extend.name.lower()),
        "one-stop-element-per-stop-in-order": lambda svg_defs, paint: len(svg_defs.children[0].children) == len(paint.stops)
        and all(ch.tag == "stop" for ch in svg_defs.children[0].children),
        "stop-opacity-iff-not-opaque": lambda svg_defs, paint: all(
            ("stop-opacity" in ch.attrib) == (st.color.alpha != 1) for (ch, st) in zip(svg_defs.children[0].children, paint.stops)
        ),
    }
    native = False


@contract("nanoemoji.svg._define_radial_gradient", props=["C02", "C13"])
class define_radial_gradient:
    args = {"svg_defs": DEFS, "paint": RAD2, "transform": AFF}
    ensures = {
        "new-child": lambda svg_defs, result: len(svg_defs.children) == 1
        and svg_defs.children[0].tag == "radialGradient"
        and svg_defs.children[0].attrib["id"] == result,
        # COLR (c0, r0) -> SVG focal circle (fx, fy, fr); (c1, r1) -> (cx, cy, r)
        "focal-point-iff-centres-differ": lambda svg_defs, paint: ("fx" in svg_defs.children[0].attrib) == (tuple(paint.c0) != tuple(paint.c1))
        and ("fy" in svg_defs.children[0].attrib) == (tuple(paint.c0) != tuple(paint.c1)),
        "focal-radius-iff-nonzero": lambda svg_defs, paint: ("fr" in svg_defs.children[0].attrib) == (paint.r0 != 0),
        "end-circle": lambda svg_defs, paint: svg_defs.children[0].attrib["cx"] == ufn("ntos_round3", "str", paint.c1[0])
        and svg_defs.children[0].attrib["cy"] == ufn("ntos_round3", "str", paint.c1[1])
        and svg_defs.children[0].attrib["r"] == ufn("ntos_round3", "str", paint.r1),
        "focal-values": lambda svg_defs, paint: ("fx" not in svg_defs.children[0].attrib or svg_defs.children[0].attrib["fx"] == ufn("ntos_round3", "str", paint.c0[0]))
        and ("fy" not in svg_defs.children[0].attrib or svg_defs.children[0].attrib["fy"] == ufn("ntos_round3", "str", paint.c0[1]))
        and ("fr" not in svg_defs.children[0].attrib or svg_defs.children[0].attrib["fr"] == ufn("ntos_round3", "str", paint.r0)),
        "user-space-units": lambda svg_defs: svg_defs.children[0].attrib["gradientUnits"] == "userSpaceOnUse",
    }
    native = False
