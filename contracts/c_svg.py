"""svg.py -- OT-SVG documents (C02, C06, C07, C16)."""
from vlib import *
import spec
from c_common import AFF, PT
from c_paint import LIN, RAD


@contract("nanoemoji.svg._ntos", props=["C02"])
class ntos3:
    # number formatting (picosvg ntos of the 3-digit rounded value): outside the proved subset
    assumed = True
    args = {"n": Real}
    returns = Str
    ensures = {"function-of-the-number": lambda n, result: result == ufn("ntos_round3", "str", n)}
    native = False
    note = "text of round(n, 3); conformance-checked natively by c_conformance.ntos_conformance"


REUSE = Record("nanoemoji.glyph_reuse.ReuseResult")
XLINK = "{http://www.w3.org/1999/xlink}href"


def _M(A):
    """the matrix left on the <use> once the translation went into x/y:  A o T(-e, -f)"""
    return spec.mul(spec.aff(A), spec.translate(-A.e, -A.f))


@contract("nanoemoji.svg._create_use_element", props=["C02", "C06", "C19"])
class create_use_element:
    args = {"svg": Obj(svg_root=Obj(nsmap=Const({}))), "parent_el": Elem("g"), "reuse_result": REUSE}
    ensures = {
        "child-of-parent": lambda parent_el, result: len(parent_el.children) == 1 and same(parent_el.children[0], result) and result.tag == "use",
        "references-the-donor": lambda reuse_result, result: result.attrib[XLINK] == "#" + reuse_result.glyph_name,
        # x / y carry the translation (omitted when zero, also when negative!)
        "x": lambda reuse_result, result: iff("x" in result.attrib, reuse_result.transform.e != 0)
        and ("x" not in result.attrib or result.attrib["x"] == ufn("ntos_round3", "str", reuse_result.transform.e)),
        "y": lambda reuse_result, result: iff("y" in result.attrib, reuse_result.transform.f != 0)
        and ("y" not in result.attrib or result.attrib["y"] == ufn("ntos_round3", "str", reuse_result.transform.f)),
        # the remaining matrix M = A o T(-e,-f); with L-use: M o T(x, y) = A
        "matrix": lambda reuse_result, result: iff("transform" in result.attrib, _M(reuse_result.transform) != spec.ID)
        and ("transform" not in result.attrib or result.attrib["transform"] == ufn("svg_matrix_string", "str", _M(reuse_result.transform))),
        "no-other-attributes": lambda result: all(k in (XLINK, "x", "y", "transform") for k in result.attrib),
    }
    native = False


@lemma("L-use", props=["C02", "C06"])
class L_use:
    """SVG <use x y transform=M>: the referenced content is drawn through M o T(x, y).  With
    M = A o T(-e, -f) and (x, y) = (e, f) (the translation of A) that is A."""

    args = {"A": TupleOf(Real, Real, Real, Real, Real, Real)}
    statement = lambda A: spec.mul(spec.mul(A, spec.translate(-A[4], -A[5])), spec.translate(A[4], A[5])) == A


def _lin3(g):
    return (tuple(g.p0), tuple(g.p1), tuple(g.p2))


@contract("nanoemoji.svg._map_gradient_coordinates", props=["C02", "C13", "C16"])
class map_gradient_coordinates_linear:
    args = {"paint": LIN, "affine": AFF}
    ensures = {
        "three-points-mapped": lambda paint, affine, result: _lin3(result) == tuple(spec.pt(spec.aff(affine), p) for p in _lin3(paint)),
        "colour-line-kept": lambda paint, result: same(result.stops, paint.stops) and same(result.extend, paint.extend),
    }
    native_skip = ("three-points-mapped",)
    native_ensures = {
        "three-points-mapped~": lambda paint, affine, result: close(_lin3(result), tuple(spec.pt(spec.aff(affine), p) for p in _lin3(paint)), 1e-6 * (1 + sum(abs(v) for v in affine)) * (1 + sum(abs(v) for p in _lin3(paint) for v in p)))
    }


def _len2(affine):
    return affine.a * affine.a + affine.b * affine.b


@contract("nanoemoji.svg._map_gradient_coordinates", props=["C02", "C13", "C16", "C20"])
class map_gradient_coordinates_radial:
    args = {"paint": RAD, "affine": AFF}
    requires = [lambda paint: paint.r0 >= 0 and paint.r1 >= 0]
    # circles stay circles only under a similarity -- uniform scale, rotation, reflection,
    # translation: the columns of the linear part are orthogonal and of equal length (to
    # within 1e-9 relative, floats); anything else is an error, never a silently wrong radius
    raises = {"ValueError": lambda affine: _len2(affine) == 0 or abs(affine.a * affine.c + affine.b * affine.d) > 1e-9 * _len2(affine) or abs(_len2(affine) - (affine.c * affine.c + affine.d * affine.d)) > 1e-9 * _len2(affine)}
    ensures = {
        "centres-mapped": lambda paint, affine, result: (tuple(result.c0), tuple(result.c1))
        == (spec.pt(spec.aff(affine), paint.c0), spec.pt(spec.aff(affine), paint.c1)),
        # radii are lengths: scaled by |s|, never negative (SVG: a negative r is an error and
        # nothing is painted)
        # ... by the similarity's factor, the length of the mapped unit vector (NOT |a|: under a
        # rotation by t that would shrink the circle by cos t)
        "radii-scaled": lambda paint, affine, result: result.r0 * result.r0 == _len2(affine) * paint.r0 * paint.r0 and result.r1 * result.r1 == _len2(affine) * paint.r1 * paint.r1,
        "radii-non-negative": lambda result: result.r0 >= 0 and result.r1 >= 0,
        "colour-line-kept": lambda paint, result: same(result.stops, paint.stops) and same(result.extend, paint.extend),
    }
    native_skip = ("centres-mapped", "radii-scaled")


# ---------------------------------------------------------------------------- gradient definitions

COLOR = Record("nanoemoji.colors.Color")
STOP = Record("nanoemoji.paint.ColorStop", color=COLOR)
_EXT = OneOf(*[EnumConst("nanoemoji.paint.Extend", n) for n in ("PAD", "REPEAT", "REFLECT")])
LIN2 = Record("nanoemoji.paint.PaintLinearGradient", extend=_EXT, stops=TupleOf(STOP, STOP), p0=PT, p1=PT, p2=PT)
RAD2 = Record("nanoemoji.paint.PaintRadialGradient", extend=_EXT, stops=TupleOf(STOP, STOP), c0=PT, c1=PT, r0=Real, r1=Real)
DEFS = Elem("defs", children=Int)


@contract("nanoemoji.colors.Color.to_string", props=["C02", "C13"])
class color_to_string:
    assumed = True  # hex / named-colour formatting: string level, bounded tier only
    args = {"self": COLOR}
    returns = Str
    ensures = {"function-of-the-colour": lambda self, result: result == ufn("css_colour", "str", self.red, self.green, self.blue, self.alpha)}
    native = False
    note = "CSS text of the colour; conformance-checked natively by c_conformance.colour_text_conformance (reads back as the same colour)"


@contract("picosvg.svg_transform.Affine2D.tostring", props=["C02", "C13"], dep=True)
class affine_tostring:
    assumed = True
    args = {"self": AFF}
    returns = Str
    ensures = {"function-of-the-affine": lambda self, result: result == ufn("affine_text", "str", spec.aff(self))}
    native = False
    note = "SVG transform text of the affine"


def _ntos_arg(calls, k):
    return calls["nanoemoji.svg._ntos"][k]


def _dot(u, v):
    return u[0] * v[0] + u[1] * v[1]


def _cross(u, v):
    return u[0] * v[1] - u[1] * v[0]


@contract("nanoemoji.svg._define_linear_gradient", props=["C02", "C13"])
class define_linear_gradient:
    args = {"svg_defs": DEFS, "paint": LIN2, "transform": AFF}
    requires = [lambda paint: (paint.p2[0] - paint.p0[0]) != 0 or (paint.p2[1] - paint.p0[1]) != 0]
    ensures = {
        "new-last-child-with-fresh-id": lambda svg_defs, result: len(svg_defs.children) == 1
        and svg_defs.children[0].tag == "linearGradient"
        and svg_defs.children[0].attrib["id"] == result,
        # (x1, y1) = P0 and (x2, y2) = P3: the projection of P1 onto the line through P0
        # perpendicular to P0P2 (COLR's rotation point folded into an SVG two-point gradient):
        # P3 - P0 is perpendicular to P2 - P0, and P1 - P3 is parallel to P2 - P0
        "x1y1-is-p0": lambda paint, calls: (_ntos_arg(calls, 0).args.n, _ntos_arg(calls, 1).args.n) == tuple(paint.p0),
        "x2y2-is-the-projection-p3": lambda paint, calls: (
            _dot((_ntos_arg(calls, 2).args.n - paint.p0[0], _ntos_arg(calls, 3).args.n - paint.p0[1]), (paint.p2[0] - paint.p0[0], paint.p2[1] - paint.p0[1])) == 0
            and _cross((paint.p1[0] - _ntos_arg(calls, 2).args.n, paint.p1[1] - _ntos_arg(calls, 3).args.n), (paint.p2[0] - paint.p0[0], paint.p2[1] - paint.p0[1])) == 0
        ),
        "attributes-are-those-texts": lambda svg_defs, calls: all(
            svg_defs.children[0].attrib[a] == _ntos_arg(calls, i).result for (i, a) in enumerate(("x1", "y1", "x2", "y2"))
        ),
        "user-space-units": lambda svg_defs: svg_defs.children[0].attrib["gradientUnits"] == "userSpaceOnUse",
        "spread": lambda svg_defs, paint: ("spreadMethod" in svg_defs.children[0].attrib) == (paint.extend.name != "PAD")
        and ("spreadMethod" not in svg_defs.children[0].attrib or svg_defs.children[0].attrib["spreadMethod"] == paint.extend.name.lower()),
        "one-stop-element-per-stop-in-order": lambda svg_defs, paint: len(svg_defs.children[0].children) == len(paint.stops)
        and all(ch.tag == "stop" for ch in svg_defs.children[0].children),
        "stop-opacity-iff-not-opaque": lambda svg_defs, paint: all(
            ("stop-opacity" in ch.attrib) == (st.color.alpha != 1) for (ch, st) in zip(svg_defs.children[0].children, paint.stops)
        ),
    }
    native = False


@contract("nanoemoji.svg._define_radial_gradient", props=["C02", "C13"])
class define_radial_gradient:
    args = {"svg_defs": DEFS, "paint": RAD2, "transform": AFF}
    ensures = {
        "new-child": lambda svg_defs, result: len(svg_defs.children) == 1
        and svg_defs.children[0].tag == "radialGradient"
        and svg_defs.children[0].attrib["id"] == result,
        # COLR (c0, r0) -> SVG focal circle (fx, fy, fr); (c1, r1) -> (cx, cy, r)
        "focal-point-iff-centres-differ": lambda svg_defs, paint: ("fx" in svg_defs.children[0].attrib) == (tuple(paint.c0) != tuple(paint.c1))
        and ("fy" in svg_defs.children[0].attrib) == (tuple(paint.c0) != tuple(paint.c1)),
        "focal-radius-iff-nonzero": lambda svg_defs, paint: ("fr" in svg_defs.children[0].attrib) == (paint.r0 != 0),
        "end-circle": lambda svg_defs, paint: svg_defs.children[0].attrib["cx"] == ufn("ntos_round3", "str", paint.c1[0])
        and svg_defs.children[0].attrib["cy"] == ufn("ntos_round3", "str", paint.c1[1])
        and svg_defs.children[0].attrib["r"] == ufn("ntos_round3", "str", paint.r1),
        "focal-values": lambda svg_defs, paint: ("fx" not in svg_defs.children[0].attrib or svg_defs.children[0].attrib["fx"] == ufn("ntos_round3", "str", paint.c0[0]))
        and ("fy" not in svg_defs.children[0].attrib or svg_defs.children[0].attrib["fy"] == ufn("ntos_round3", "str", paint.c0[1]))
        and ("fr" not in svg_defs.children[0].attrib or svg_defs.children[0].attrib["fr"] == ufn("ntos_round3", "str", paint.r0)),
        "user-space-units": lambda svg_defs: svg_defs.children[0].attrib["gradientUnits"] == "userSpaceOnUse",
    }
    native = False


# ---- _apply_gradient_paint: the fill refers to a definition of THIS gradient ----------------
#
# Gradients are shared inside one OT-SVG document through reuse_cache.gradient_ids.  Ghost
# state: def_k(id), def_t(id) = the (paint, transform) an id was defined with.  Cache
# invariant: every entry (key -> id) has def(id) == (key.paint, key.transform).  The gradient
# is seen through spec.GhostGradient (identity k; apply_transform / round summarised).

_GID = "nanoemoji.svg._define_gradient"


def _def_k(i):
    return ufn("gradient_def_paint", "int", i)


def _def_t(i):
    return tuple(ufn(f"gradient_def_transform_{j}", "real", i) for j in range(6))


@contract(_GID, props=["C02", "C13"])
class define_gradient_ghost:
    assumed = True
    args = {"svg_defs": Opaque("any"), "paint": Instance("spec.GhostGradient", k=Int), "transform": AFF}
    returns = Str
    ensures = {"defines-what-it-is-given": lambda paint, transform, result: _def_k(result) == paint.k and _def_t(result) == spec.aff(transform)}
    native = False
    note = "returns the id of a new gradient element built from (paint, transform); the builders _define_linear_gradient / _define_radial_gradient / _apply_gradient_common_parts are under contract themselves"


_KEY = Record("nanoemoji.svg.GradientReuseKey", paint=Instance("spec.GhostGradient", k=Int), transform=AFF)


def _norm(paint, transform):
    """(k, affine) the code must look up: the gradient after folding `transform` in (unless it
    is the identity to within picosvg's tolerance), both rounded to 3 digits"""
    from picosvg.svg_transform import Affine2D

    r = paint.apply_transform(transform, False)
    folded = (r.paint.round(3).k, tuple(r.gettransform().round(3)) if r.has_residual else spec.ID)
    plain = (paint.round(3).k, tuple(transform.round(3)))
    return plain if transform.almost_equals(Affine2D.identity()) else folded


@contract("nanoemoji.svg._apply_gradient_paint", props=["C02", "C13", "C06"])
class apply_gradient_paint_cache:
    scope = "finite: a cache holding one arbitrary entry (by symmetry: any entry) or none"
    args = {
        "svg_defs": Opaque("any"),
        "svg_path": Obj(attrib=Const({})),
        "paint": Instance("spec.GhostGradient", k=Int),
        "reuse_cache": OneOf(Obj(gradient_ids=AssocOf((_KEY, Str))), Obj(gradient_ids=AssocOf())),
        "transform": AFF,
    }
    globals = {"is_transform": Const(spec.ghost_is_transform), "cast": Const(spec.ghost_cast)}
    # callers (svg._apply_paint) see only that it was called, with which arguments
    returns = Const(None)
    modular_ensures = {}
    requires = [
        # cache invariant on entry
        lambda reuse_cache: all(_def_k(v) == k.paint.k and _def_t(v) == spec.aff(k.transform) for k, v in reuse_cache.gradient_ids.items())
    ]
    ensures = {
        "fill-is-a-reference": lambda svg_path, reuse_cache: any(svg_path.attrib["fill"] == "url(#" + v + ")" for k, v in reuse_cache.gradient_ids.items()),
        # the referenced definition is the normalised form of this paint under this transform
        "references-this-gradient": lambda svg_path, paint, transform, reuse_cache: all(
            (svg_path.attrib["fill"] != "url(#" + v + ")") or (_def_k(v), _def_t(v)) == _norm(paint, transform)
            for k, v in reuse_cache.gradient_ids.items()
        ),
        "cache-invariant-kept": lambda reuse_cache: all(
            _def_k(v) == k.paint.k and _def_t(v) == spec.aff(k.transform) for k, v in reuse_cache.gradient_ids.items()
        ),
        "old-entries-kept": lambda reuse_cache, old: all(
            any(same(k, k0) and v == v0 for k, v in reuse_cache.gradient_ids.items()) for k0, v0 in old.reuse_cache.gradient_ids.items()
        ),
    }
    assumes = (
        "the gradient is abstracted to spec.GhostGradient: apply_transform / round are uninterpreted functions of the gradient's identity (what they do to geometry is proved in PaintLinearGradient/PaintRadialGradient.apply_transform and checked in the bounded tier)",
        "distinct definitions get distinct ids (svg._ensure_has_id / the id counter; bounded tier: duplicate-id clause of the document structure)",
    )
    native = False


@contract("nanoemoji.svg._apply_gradient_paint", props=["C02", "C13"])
class apply_gradient_paint_nocache:
    """without a cache: one definition per call, from exactly what was passed"""

    args = {
        "svg_defs": Opaque("any"),
        "svg_path": Obj(attrib=Const({})),
        "paint": Instance("spec.GhostGradient", k=Int),
        "reuse_cache": Const(None),
        "transform": AFF,
    }
    globals = {"is_transform": Const(spec.ghost_is_transform), "cast": Const(spec.ghost_cast)}
    ensures = {
        "fill-refers-to-a-definition-of-what-was-passed": lambda svg_path, paint, transform, calls: svg_path.attrib["fill"] == "url(#" + calls[_GID][0].result + ")"
        and _def_k(calls[_GID][0].result) == paint.k
        and _def_t(calls[_GID][0].result) == spec.aff(transform),
    }
    native = False


# ---- _apply_paint: transform paints accumulate, gradients get the conjugated transform -------

_AP = "nanoemoji.svg._apply_paint"
_AGP = "nanoemoji.svg._apply_gradient_paint"
_INV = "picosvg.svg_transform.Affine2D.inverse"
_AP_COMMON = {
    "svg_defs": Opaque("any"),
    "el": Obj(attrib=Const({})),
    "upem_to_vbox": AFF,
    "reuse_cache": Obj(gradient_ids=AssocOf()),
    "transform": AFF,
}
_TPAINTS = [
    Record("nanoemoji.paint." + n, paint=Opaque("Paint"), **kw)
    for n, kw in (
        ("PaintTransform", dict(transform=TupleOf(Real, Real, Real, Real, Real, Real))),
        ("PaintTranslate", dict(dx=Real, dy=Real)),
        ("PaintScale", {}),
        ("PaintScaleUniform", {}),
        ("PaintScaleAroundCenter", {}),
        ("PaintScaleUniformAroundCenter", {}),
        ("PaintRotate", {}),
        ("PaintRotateAroundCenter", {}),
        ("PaintSkew", {}),
        ("PaintSkewAroundCenter", {}),
    )
]


@contract(_AP, props=["C02", "C06", "C16"])
class apply_paint_transform:
    """a transform paint: its own affine is applied BEFORE whatever is pending (COLR
    semantics), and the walk goes on with the child"""

    args = dict(_AP_COMMON, paint=OneOf(*_TPAINTS))
    returns = Const(None)
    modular_ensures = {}
    ensures = {
        "own-affine-first-then-pending": lambda el, paint, transform, upem_to_vbox, calls: len(calls[_AP]) == 1
        and spec.aff(calls[_AP][0].args.transform) == spec.mul(spec.aff(transform), spec.ot_transform(paint))
        and same(calls[_AP][0].args.paint, paint.paint)
        and calls[_AP][0].args.el is el
        and spec.aff(calls[_AP][0].args.upem_to_vbox) == spec.aff(upem_to_vbox),
        "nothing-set-here": lambda el: len(el.attrib) == 0,
    }
    assumes = ("recursion hypothesis on the child paint (paint trees are finite)",)
    native = False


@contract(_AP, props=["C02", "C06", "C16"])
class apply_paint_gradient:
    """a gradient: geometry mapped into viewBox units by V = upem_to_vbox, and the pending
    font-space transform T handed on as V T V^-1 (so that, in viewBox coordinates q = V p, the
    colour at q is the gradient's colour at T^-1 p)"""

    args = dict(_AP_COMMON, paint=OneOf(LIN, RAD))
    requires = [
        lambda paint, upem_to_vbox: abs(spec.det(spec.aff(upem_to_vbox))) > 2 ** -52
        # viewBox maps are uniform scales (+ flip) and translations; radii are lengths
        and upem_to_vbox.a != 0 and abs(upem_to_vbox.a) == abs(upem_to_vbox.d) and upem_to_vbox.b == 0 and upem_to_vbox.c == 0,
        lambda paint: kind(paint) != "PaintRadialGradient" or (paint.r0 >= 0 and paint.r1 >= 0),
    ]
    ensures = {
        # (the conjugation happens -- and V is inverted -- exactly when something is pending)
        "conjugated-iff-pending": lambda transform, calls: (spec.aff(transform) != spec.ID) if _INV in calls else (spec.aff(transform) == spec.ID),
        "pending-transform-conjugated": lambda transform, upem_to_vbox, calls: spec.aff(calls[_AGP][0].args.transform)
        == (spec.ltr(spec.aff(calls[_INV][0].result), spec.aff(transform), spec.aff(upem_to_vbox)) if _INV in calls else spec.ID),
        "inverse-is-of-the-viewbox-map": lambda upem_to_vbox, calls: _INV not in calls or spec.aff(calls[_INV][0].args.self) == spec.aff(upem_to_vbox),
        "geometry-in-viewbox-units": lambda paint, upem_to_vbox, calls: (
            _lin3(calls[_AGP][0].args.paint) == tuple(spec.pt(spec.aff(upem_to_vbox), p) for p in _lin3(paint))
            if kind(paint) == "PaintLinearGradient"
            else (
                tuple(calls[_AGP][0].args.paint.c0) == spec.pt(spec.aff(upem_to_vbox), paint.c0)
                and tuple(calls[_AGP][0].args.paint.c1) == spec.pt(spec.aff(upem_to_vbox), paint.c1)
                and calls[_AGP][0].args.paint.r0 == paint.r0 * abs(upem_to_vbox.a)
                and calls[_AGP][0].args.paint.r1 == paint.r1 * abs(upem_to_vbox.a)
            )
        ),
        "same-element-and-cache": lambda el, reuse_cache, calls: calls[_AGP][0].args.svg_path is el and calls[_AGP][0].args.reuse_cache is reuse_cache,
    }
    native = False


@contract(_AP, props=["C02", "C17"])
class apply_paint_unsupported:
    """anything that is neither a solid, a gradient nor a transform paint is an error, not a
    silently missing fill"""

    args = dict(_AP_COMMON, paint=OneOf(Record("nanoemoji.paint.PaintGlyph", glyph=Str, paint=Opaque("Paint")), Record("nanoemoji.paint.PaintColrLayers", layers=Const(()))))
    raises = {"NotImplementedError": lambda: True}
    ensures = {}
    native = False


# ---- _apply_solid_paint: SVG's default paint (opaque black) is written as "no attribute" -----

_SOLID = Record("nanoemoji.paint.PaintSolid", color=COLOR)


def _plain_black(c):
    return (c.red, c.green, c.blue) == (0, 0, 0) and isnone(c.palette_index)


@contract("nanoemoji.svg._apply_solid_paint", props=["C02", "C06", "C13"])
class apply_solid_paint:
    args = {"el": OneOf(Elem("path"), Elem("use"), Elem("g")), "paint": _SOLID}
    # a group can only carry an opacity: its "colour" must be plain black
    raises = {"AssertionError": lambda el, paint: el.tag == "g" and not _plain_black(paint.color)}
    ensures = {
        # fill is omitted exactly for plain black (the default paint a <use> can override)
        "fill-iff-not-plain-black": lambda el, paint: iff("fill" in el.attrib, not _plain_black(paint.color)),
        "fill-is-the-opaque-colour": lambda el, paint: "fill" not in el.attrib
        or el.attrib["fill"] == ufn("css_colour", "str", paint.color.red, paint.color.green, paint.color.blue, 1.0),
        "opacity-iff-translucent": lambda el, paint: iff("opacity" in el.attrib, paint.color.alpha != 1),
        "opacity-is-the-alpha": lambda el, paint: "opacity" not in el.attrib or el.attrib["opacity"] == ufn("ntos_round3", "str", paint.color.alpha),
        "nothing-else": lambda el: all(k in ("fill", "opacity") for k in el.attrib),
    }
    native = False
