"""svg.py -- OT-SVG documents (C02, C06, C07, C16)."""
from vlib import *
import spec
from c_common import AFF, PT
from c_paint import LIN, RAD


@contract("nanoemoji.svg._ntos", props=["C02"])
class ntos3:
    # number formatting (picosvg ntos of the 3-digit rounded value): outside the proved subset
    assumed = True
    args = {"n": Real}
    returns = Str
    ensures = {"function-of-the-number": lambda n, result: result == ufn("ntos_round3", "str", n)}
    native = False
    note = "text of round(n, 3)"


REUSE = Record("nanoemoji.glyph_reuse.ReuseResult")
XLINK = "{http://www.w3.org/1999/xlink}href"


def _M(A):
    """the matrix left on the <use> once the translation went into x/y:  A o T(-e, -f)"""
    return spec.mul(spec.aff(A), spec.translate(-A.e, -A.f))


@contract("nanoemoji.svg._create_use_element", props=["C02", "C06", "C19"])
class create_use_element:
    args = {"svg": Obj(svg_root=Obj(nsmap=Const({}))), "parent_el": Elem("g"), "reuse_result": REUSE}
    ensures = {
        "child-of-parent": lambda parent_el, result: len(parent_el.children) == 1 and same(parent_el.children[0], result) and result.tag == "use",
        "references-the-donor": lambda reuse_result, result: result.attrib[XLINK] == "#" + reuse_result.glyph_name,
        # x / y carry the translation (omitted when zero, also when negative!)
        "x": lambda reuse_result, result: iff("x" in result.attrib, reuse_result.transform.e != 0)
        and ("x" not in result.attrib or result.attrib["x"] == ufn("ntos_round3", "str", reuse_result.transform.e)),
        "y": lambda reuse_result, result: iff("y" in result.attrib, reuse_result.transform.f != 0)
        and ("y" not in result.attrib or result.attrib["y"] == ufn("ntos_round3", "str", reuse_result.transform.f)),
        # the remaining matrix M = A o T(-e,-f); with L-use: M o T(x, y) = A
        "matrix": lambda reuse_result, result: iff("transform" in result.attrib, _M(reuse_result.transform) != spec.ID)
        and ("transform" not in result.attrib or result.attrib["transform"] == ufn("svg_matrix_string", "str", _M(reuse_result.transform))),
        "no-other-attributes": lambda result: all(k in (XLINK, "x", "y", "transform") for k in result.attrib),
    }
    native = False


@lemma("L-use", props=["C02", "C06"])
class L_use:
    """SVG <use x y transform=M>: the referenced content is drawn through M o T(x, y).  With
    M = A o T(-e, -f) and (x, y) = (e, f) (the translation of A) that is A."""

    args = {"A": TupleOf(Real, Real, Real, Real, Real, Real)}
    statement = lambda A: spec.mul(spec.mul(A, spec.translate(-A[4], -A[5])), spec.translate(A[4], A[5])) == A


def _lin3(g):
    return (tuple(g.p0), tuple(g.p1), tuple(g.p2))


@contract("nanoemoji.svg._map_gradient_coordinates", props=["C02", "C13", "C16"])
class map_gradient_coordinates_linear:
    args = {"paint": LIN, "affine": AFF}
    ensures = {
        "three-points-mapped": lambda paint, affine, result: _lin3(result) == tuple(spec.pt(spec.aff(affine), p) for p in _lin3(paint)),
        "colour-line-kept": lambda paint, result: same(result.stops, paint.stops) and same(result.extend, paint.extend),
    }
    native_skip = ("three-points-mapped",)
    native_ensures = {
        "three-points-mapped~": lambda paint, affine, result: close(_lin3(result), tuple(spec.pt(spec.aff(affine), p) for p in _lin3(paint)), 1e-6 * (1 + sum(abs(v) for v in affine)) * (1 + sum(abs(v) for p in _lin3(paint) for v in p)))
    }


@contract("nanoemoji.svg._map_gradient_coordinates", props=["C02", "C13", "C16"])
class map_gradient_coordinates_radial:
    args = {"paint": RAD, "affine": AFF}
    requires = [lambda paint: paint.r0 >= 0 and paint.r1 >= 0]
    # circles stay circles only under a uniform scale (+ flip) and translation: anything else
    # is an error, never a silently wrong radius
    raises = {"ValueError": lambda affine: affine.a == 0 or abs(affine.a) != abs(affine.d)}
    ensures = {
        "centres-mapped": lambda paint, affine, result: (tuple(result.c0), tuple(result.c1))
        == (spec.pt(spec.aff(affine), paint.c0), spec.pt(spec.aff(affine), paint.c1)),
        # radii are lengths: scaled by |s|, never negative (SVG: a negative r is an error and
        # nothing is painted)
        "radii-scaled": lambda paint, affine, result: result.r0 == abs(affine.a) * paint.r0 and result.r1 == abs(affine.a) * paint.r1,
        "radii-non-negative": lambda result: result.r0 >= 0 and result.r1 >= 0,
        "colour-line-kept": lambda paint, result: same(result.stops, paint.stops) and same(result.extend, paint.extend),
    }
    native_skip = ("centres-mapped", "radii-scaled")
    native_requires = lambda affine: affine.b == 0 and affine.c == 0
