"""bitmap_tables.py -- C14 (placement, ppem, rejection), C07 (strike partition, offsets)."""
from vlib import *
import spec
from c_common import CFG, PNG, em

INT8 = range(-128, 128)


def _sane(config):
    """what config.validate guarantees plus a non-empty em box"""
    return config.upem > 0 and config.ascender >= 0 and config.descender <= 0 and em(config) > 0 and config.width >= 0


@contract("nanoemoji.bitmap_tables._ppem", props=["C14", "C20"])
class ppem:
    args = {"config": CFG, "bitmap_pixel_height": Int}
    returns = Int
    raises = {"ZeroDivisionError": lambda config: em(config) == 0}
    ensures = {
        # statement: ppem = round(upem x bitmap height / em height)
        "value": lambda config, bitmap_pixel_height, result: result
        == round(config.upem * bitmap_pixel_height / em(config)),
    }


@contract("nanoemoji.bitmap_tables._width_in_pixels", props=["C14"])
class width_in_pixels:
    args = {"config": CFG, "image_data": PNG}
    requires = [lambda config, image_data: _sane(config) and image_data.size[0] > 0 and image_data.size[1] > 0]
    returns = Int
    ensures = {
        "value": lambda config, image_data, result: result
        == round(
            max(config.width, image_data.size[0] * em(config) / image_data.size[1]) * image_data.size[1] / em(config)
        ),
        # the pixel advance matches the font advance (color_glyph._advance_width:
        # max(width, round(em * w / h))) scaled by pixels per font unit, to within rounding
        "matches-scaled-hmtx-advance": lambda config, image_data, result: abs(
            result
            - max(config.width, round(em(config) * image_data.size[0] / image_data.size[1]))
            * image_data.size[1]
            / em(config)
        )
        <= 1 / 2 + image_data.size[1] / (2 * em(config)),
        "at-least-the-bitmap": lambda config, image_data, result: result >= image_data.size[0],
    }


@contract("nanoemoji.bitmap_tables._nudge_into_range", props=["C14"])
class nudge:
    args = {"arange": Const(range(-128, 128)), "value": Int, "max_move": OneOf(Const(1))}
    returns = Int
    ensures = {
        "in-range-or-untouched": lambda arange, value, result: (result in arange) or result == value,
        "moved-by-at-most": lambda value, max_move, result: abs(result - value) <= max_move,
        "identity-inside": lambda arange, value, result: implies(value in arange, result == value),
        "nudged-when-one-off": lambda value, result: implies(value == 128, result == 127) and implies(value == -129, result == -128),
    }


def _adv_px(config, image_data):
    return round(max(config.width, image_data.size[0] * em(config) / image_data.size[1]) * image_data.size[1] / em(config))


_CFG_SBIX = Record("nanoemoji.config.FontConfig", color_format=Const("sbix"), axes=Const(()), masters=Const(()), source_names=Const(()))


@contract("nanoemoji.bitmap_tables.BitmapMetrics.create", props=["C14", "C20"])
class metrics_create_sbix:
    """sbix has 16-bit ppem and offsets and does not use y_offset: CBDT's 8-bit limits must not
    reject an sbix build (C14 allows rejecting only what the format cannot represent; C20:
    bitmap_resolution is the strike size)"""

    timeout_s = 40  # nonlinear placement clauses: headroom for a fully loaded machine

    args = {"cls": ClassOf("nanoemoji.bitmap_tables.BitmapMetrics"), "config": _CFG_SBIX, "image_data": PNG, "ppem": Int}
    requires = [
        lambda config, image_data, ppem: _sane(config) and image_data.size[0] > 0 and image_data.size[1] > 0 and ppem == round(config.upem * image_data.size[1] / em(config))
    ]
    # no may_raise: the function returns for every sane configuration and bitmap
    ensures = {
        "centred-in-advance": lambda config, image_data, result: (
            abs(result.x_offset - (_adv_px(config, image_data) - image_data.size[0]) / 2) <= 1 / 2 or result.x_offset == 127
        ),
        "line-height": lambda config, ppem, result: result.line_height == round(em(config) * ppem / config.upem),
        "line-ascent": lambda config, ppem, result: result.line_ascent == round(config.ascender * ppem / config.upem),
    }
    native = False


@contract("nanoemoji.bitmap_tables.BitmapMetrics.create", props=["C14"])
class metrics_create:
    timeout_s = 40  # nonlinear placement clauses: headroom for a fully loaded machine
    args = {"cls": ClassOf("nanoemoji.bitmap_tables.BitmapMetrics"), "config": CFG, "image_data": PNG, "ppem": Int}
    requires = [
        lambda config, image_data, ppem: _sane(config)
        and image_data.size[0] > 0
        and image_data.size[1] > 0
        # (NOT assumed: that the bitmap's height equals config.bitmap_resolution -- nanoemoji's
        # own driver renders at that height, but maximum_color --bitmap_resolution R renders
        # at R while the configuration it writes for the CBDT step keeps the default)
        # ppem as the callers compute it
        and ppem == round(config.upem * image_data.size[1] / em(config))
    ]
    returns = Record("nanoemoji.bitmap_tables.BitmapMetrics")
    may_raise = ("AssertionError",)  # unrepresentable metric combinations are rejected
    chain = True  # clauses are proved in order; earlier ones may be used by later ones
    ensures = {
        "representable": lambda config, result: config.color_format == "sbix" or ((result.y_offset in INT8) and 0 <= config.bitmap_resolution and config.bitmap_resolution <= 255),
        # --- horizontal: the bitmap [x_offset, x_offset + w] is centred in [0, advance]
        "centred-in-advance": lambda config, image_data, result: (
            abs(result.x_offset - (_adv_px(config, image_data) - image_data.size[0]) / 2) <= 1 / 2
            or result.x_offset == 127
        ),
        # --- vertical (k = line_height - h is the integer the code centres with)
        "have:scaled-em-close-to-height": lambda config, image_data, ppem: abs(
            em(config) * ppem / config.upem - image_data.size[1]
        )
        <= em(config) / (2 * config.upem),
        "have:delta-at-most-one": lambda config: implies(em(config) <= 2 * config.upem, em(config) / (2 * config.upem) <= 1),
        "line-height": lambda config, ppem, result: result.line_height == round(em(config) * ppem / config.upem),
        "have:k-small": lambda config, image_data, result: implies(
            em(config) <= 2 * config.upem,
            result.line_height - image_data.size[1] >= -1 and result.line_height - image_data.size[1] <= 1,
        ),
        # top edge of the bitmap (y_offset) against the em-box top ascender*ppem/upem; bottom
        # edge (y_offset - h) against descender*ppem/upem: one pixel; two where nudged
        "have:y-offset-before-nudge": lambda config, image_data, ppem, result: (
            abs(result.y_offset - (config.ascender * ppem / config.upem - (result.line_height - image_data.size[1]) / 2)) <= 1 / 2
            or ((result.y_offset == 127 or result.y_offset == -128) and abs(result.y_offset - (config.ascender * ppem / config.upem - (result.line_height - image_data.size[1]) / 2)) <= 3 / 2)
        ),
        "top-within-a-pixel": lambda config, image_data, ppem, result: implies(
            em(config) <= 2 * config.upem,
            abs(result.y_offset - config.ascender * ppem / config.upem) <= 1
            or ((result.y_offset == 127 or result.y_offset == -128) and abs(result.y_offset - config.ascender * ppem / config.upem) <= 2),
        ),
        "bottom-within-a-pixel": lambda config, image_data, ppem, result: implies(
            em(config) <= 2 * config.upem,
            abs((result.y_offset - image_data.size[1]) - config.descender * ppem / config.upem) <= 1
            or ((result.y_offset == 127 or result.y_offset == -128) and abs((result.y_offset - image_data.size[1]) - config.descender * ppem / config.upem) <= 2),
        ),
        "line-ascent": lambda config, ppem, result: result.line_ascent == round(config.ascender * ppem / config.upem),
    }


@contract("nanoemoji.bitmap_tables._cbdt_record_size", props=["C14", "C07"])
class record_size:
    args = {"image_format": Int, "image_data": SeqOf(Int)}
    returns = Int
    raises = {"AssertionError": lambda image_format: image_format != 17}
    ensures = {"size": lambda image_data, result: result == 9 + len(image_data)}


CG = Obj(glyph_id=Int, bitmap=Bytes, bitmap_filename=Str)


@contract("nanoemoji.bitmap_tables._cbdt_bitmapdata_offsets", props=["C07", "C14"])
class bitmapdata_offsets:
    args = {"initial_offset": Int, "image_format": Const(17), "color_glyphs": SeqOf(CG)}
    returns = SeqOf(TupleOf(Int, Int))
    loop_vars = {0: {"offsets": SeqOf(Int)}}
    invariants = {
        # offsets[j] is where record j starts; `offset` is where the next one will
        0: lambda offsets, offset, initial_offset, color_glyphs, _k: len(offsets) == _k
        and implies(_k == 0, offset == initial_offset)
        and implies(_k > 0, offsets[0] == initial_offset and offset == offsets[_k - 1] + 9 + len(color_glyphs[_k - 1].bitmap))
        and all(offsets[j + 1] == offsets[j] + 9 + len(color_glyphs[j].bitmap) for j in range(0, _k - 1)),
    }
    ensures = {
        "one-location-per-glyph": lambda color_glyphs, result: len(result) == len(color_glyphs),
        "starts-at-initial": lambda color_glyphs, initial_offset, result: len(color_glyphs) == 0
        or result[0][0] == initial_offset,
        # record i occupies [o_i, o_i + 9 + len(png_i)) -- SmallGlyphMetrics(5) + dataLen(4) + data
        "record-extent": lambda color_glyphs, result: all(
            result[i][1] == result[i][0] + 9 + len(color_glyphs[i].bitmap) for i in range(0, len(color_glyphs))
        ),
        "contiguous": lambda color_glyphs, result: all(
            result[i + 1][0] == result[i][1] for i in range(0, len(color_glyphs) - 1)
        ),
    }


# ---- one strike, one ppem: every bitmap of the strike must be of the strike's height --------


@contract("fontTools.ttLib.newTable", props=["C14"], dep=True)
class new_table:
    assumed = True
    args = {"tag": Str}
    returns = lambda tag: Obj(tableTag=tag, strikes=Const({}))
    ensures = {}
    native = False
    note = "ttLib.newTable(tag): an empty table object (for sbix: strikes = {})"


@contract("fontTools.ttLib.tables.sbixStrike.Strike", props=["C14"], dep=True)
class sbix_strike_ctor:
    assumed = True
    args = {}
    returns = lambda: Obj(ppem=Const(0), resolution=Const(0), glyphs=Const({}))
    ensures = {}
    native = False
    note = "sbix Strike(): plain attributes ppem, resolution, glyphs"


@contract("fontTools.ttLib.tables.sbixGlyph.Glyph", props=["C14"], dep=True)
class sbix_glyph_ctor:
    assumed = True
    args = {"graphicType": Str, "glyphName": Str, "imageData": PNG, "originOffsetX": Int, "originOffsetY": Int}
    returns = lambda graphicType, glyphName, imageData, originOffsetX, originOffsetY: Obj(
        graphicType=graphicType, glyphName=glyphName, imageData=imageData, originOffsetX=originOffsetX, originOffsetY=originOffsetY
    )
    ensures = {}
    native = False
    note = "sbix Glyph(...): keeps its keyword arguments as attributes"


_CGB = Obj(glyph_id=Int, bitmap=PNG, bitmap_filename=Str)


_BMC = "nanoemoji.bitmap_tables.BitmapMetrics.create"


def _strike_ppem(ttfont):
    return [k for k in ttfont["sbix"].strikes][0]


def _sbix_glyph(ttfont, i):
    # (the i-th glyph record in insertion order; its key is checked through glyphName)
    return [g for g in [st for st in ttfont["sbix"].strikes.values()][0].glyphs.values()][i]


@contract("nanoemoji.bitmap_tables.make_sbix_table", props=["C14"])
class sbix_one_ppem:
    timeout_s = 40  # nonlinear placement clauses: headroom for a fully loaded machine
    scope = "finite: 1..2 colour glyphs; sizes, metrics and configuration unconstrained"
    args = {
        "config": CFG,
        "ttfont": Instance("spec.GhostFont", names=MapOf(Int, Str), tables=Const({})),
        "color_glyphs": OneOf(ListOf(_CGB), ListOf(_CGB, _CGB)),
    }
    requires = [
        lambda config, ttfont, color_glyphs: _sane(config)
        and all(c.bitmap.size[0] > 0 and c.bitmap.size[1] > 0 and map_has(ttfont.names, c.glyph_id) for c in color_glyphs)
        # distinct glyphs have distinct names
        and (len(color_glyphs) < 2 or ttfont.names[color_glyphs[0].glyph_id] != ttfont.names[color_glyphs[1].glyph_id])
    ]
    # a strike has one ppem; bitmaps of different pixel heights cannot share it
    raises_if = {"AssertionError": lambda color_glyphs: any(c.bitmap.size[1] != color_glyphs[0].bitmap.size[1] for c in color_glyphs)}
    ensures = {
        "ppem-is-every-glyphs-ppem": lambda config, ttfont, color_glyphs: all(
            [k for k in ttfont["sbix"].strikes] == [round(config.upem * c.bitmap.size[1] / em(config))] for c in color_glyphs
        ),
        # every glyph holds its OWN image, placed by the metrics of that image (centring
        # depends on each bitmap's width)
        "metrics-computed-per-glyph": lambda config, color_glyphs, calls: len(calls[_BMC]) == len(color_glyphs)
        and all(
            calls[_BMC][i].args.image_data is color_glyphs[i].bitmap and calls[_BMC][i].args.ppem == round(config.upem * color_glyphs[0].bitmap.size[1] / em(config))
            for i in range(len(color_glyphs))
        ),
        "one-record-per-glyph-under-its-name": lambda ttfont, color_glyphs: len([st for st in ttfont["sbix"].strikes.values()][0].glyphs) == len(color_glyphs)
        and [k for k in [st for st in ttfont["sbix"].strikes.values()][0].glyphs] == [ttfont.names[c.glyph_id] for c in color_glyphs],
        "each-glyph-holds-its-image": lambda ttfont, color_glyphs: all(_sbix_glyph(ttfont, i).imageData.size == color_glyphs[i].bitmap.size for i in range(len(color_glyphs))),
        "each-glyph-record-names-its-glyph": lambda ttfont, color_glyphs: all(_sbix_glyph(ttfont, i).glyphName == ttfont.names[color_glyphs[i].glyph_id] for i in range(len(color_glyphs))),
        "each-glyph-at-its-x-offset": lambda ttfont, color_glyphs, calls: all(_sbix_glyph(ttfont, i).originOffsetX == calls[_BMC][i].result.x_offset for i in range(len(color_glyphs))),
        # originOffsetY is the bitmap's bottom edge: bottom and top (bottom + height) coincide
        # with the em box [descender, ascender] scaled to the strike's ppem, within one pixel
        "each-glyph-on-the-em-box-vertically": lambda config, ttfont, color_glyphs: implies(
            em(config) <= 2 * config.upem,
            all(
                abs(_sbix_glyph(ttfont, i).originOffsetY - config.descender * _strike_ppem(ttfont) / config.upem) <= 1
                and abs(_sbix_glyph(ttfont, i).originOffsetY + color_glyphs[i].bitmap.size[1] - config.ascender * _strike_ppem(ttfont) / config.upem) <= 1
                for i in range(len(color_glyphs))
            ),
        ),
    }
    native = False


@contract("fontTools.ttLib.tables.E_B_L_C_.Strike", props=["C14"], dep=True)
class cblc_strike_ctor:
    assumed = True
    args = {}
    returns = lambda: Obj(bitmapSizeTable=Obj(), indexSubTables=Const([]))
    ensures = {}
    native = False
    note = "CBLC Strike(): has a bitmapSizeTable with plain attributes"


@contract("fontTools.ttLib.tables.E_B_L_C_.SbitLineMetrics", props=["C14"], dep=True)
class cblc_line_metrics_ctor:
    assumed = True
    args = {}
    returns = lambda: Obj()
    ensures = {}
    native = False
    note = "SbitLineMetrics(): plain attributes"


@contract("fontTools.ttLib.tables.BitmapGlyphMetrics.SmallGlyphMetrics", props=["C14"], dep=True)
class small_metrics_ctor:
    assumed = True
    args = {}
    returns = lambda: Obj()
    ensures = {}
    native = False
    note = "SmallGlyphMetrics(): plain attributes"


@contract("fontTools.ttLib.tables.C_B_D_T_.cbdt_bitmap_format_17", props=["C14"], dep=True)
class cbdt17_ctor:
    assumed = True
    args = {"data": Const(b""), "ttFont": Const(None)}
    returns = lambda: Obj()
    ensures = {}
    native = False
    note = "cbdt_bitmap_format_17(b'', None): plain attributes"


@contract("fontTools.ttLib.tables.E_B_L_C_.eblc_index_sub_table_1", props=["C14"], dep=True)
class cblc_index1_ctor:
    assumed = True
    args = {"data": Const(b""), "ttFont": Opaque("font")}
    returns = lambda: Obj()
    ensures = {}
    native = False
    note = "eblc_index_sub_table_1(b'', font): plain attributes"


def _rec_i(result, i):
    return [v for v in result[1].values()][i]


_CGP = Obj(glyph_id=Int, bitmap=Instance("spec.GhostPNG", size=TupleOf(Int, Int), n=Int), bitmap_filename=Str)


@contract("nanoemoji.bitmap_tables._make_cbdt_strike", props=["C14"])
class cbdt_strike_one_ppem:
    scope = "finite: 1..2 colour glyphs of consecutive glyph ids; sizes, metrics and configuration unconstrained"
    args = {
        "config": CFG,
        "ttfont": Instance("spec.GhostFont", names=MapOf(Int, Str), tables=Const({})),
        "data_offset": Int,
        "color_glyphs": OneOf(ListOf(_CGP), ListOf(_CGP, _CGP)),
    }
    requires = [
        lambda config, ttfont, color_glyphs: _sane(config)
        and all(c.bitmap.size[0] > 0 and c.bitmap.size[1] > 0 and map_has(ttfont.names, c.glyph_id) for c in color_glyphs)
        and all(c.bitmap.n >= 0 for c in color_glyphs)
        and all(color_glyphs[i + 1].glyph_id == color_glyphs[i].glyph_id + 1 for i in range(0, len(color_glyphs) - 1))
        and (len(color_glyphs) < 2 or ttfont.names[color_glyphs[0].glyph_id] != ttfont.names[color_glyphs[1].glyph_id])
    ]
    raises_if = {"AssertionError": lambda color_glyphs: any(c.bitmap.size[1] != color_glyphs[0].bitmap.size[1] for c in color_glyphs)}
    # a strike whose line height rounds to 0 (ppem 0) is rejected by util.only (StopIteration:
    # it filters out falsy members) -- an error, as C14 asks for unrepresentable combinations
    may_raise = ("StopIteration",)
    ensures = {
        "ppem-is-every-glyphs-ppem": lambda config, color_glyphs, result: all(
            result[0].bitmapSizeTable.ppemX == round(config.upem * c.bitmap.size[1] / em(config))
            and result[0].bitmapSizeTable.ppemY == round(config.upem * c.bitmap.size[1] / em(config))
            for c in color_glyphs
        ),
        "glyph-range": lambda color_glyphs, result: result[0].bitmapSizeTable.startGlyphIndex == color_glyphs[0].glyph_id
        and result[0].bitmapSizeTable.endGlyphIndex == color_glyphs[-1].glyph_id,
        # line metrics of the strike: the em box at the strike's ppem
        "line-ascender": lambda config, color_glyphs, result: result[0].bitmapSizeTable.hori.ascender
        == round(config.ascender * round(config.upem * color_glyphs[0].bitmap.size[1] / em(config)) / config.upem),
        # exactly one bitmap record per glyph, under the glyph's name, holding its OWN image
        # with the bearings computed from that image, and indexed in glyph order
        "metrics-computed-per-glyph": lambda config, color_glyphs, calls: len(calls[_BMC]) == len(color_glyphs)
        and all(calls[_BMC][i].args.image_data is color_glyphs[i].bitmap for i in range(len(color_glyphs))),
        "one-record-per-glyph-with-its-image-and-bearings": lambda ttfont, color_glyphs, result, calls: len(result[1]) == len(color_glyphs)
        and [k for k in result[1]] == [ttfont.names[c.glyph_id] for c in color_glyphs]
        and all(
            _rec_i(result, i).imageData is color_glyphs[i].bitmap
            and _rec_i(result, i).metrics.BearingX == calls[_BMC][i].result.x_offset
            and _rec_i(result, i).metrics.BearingY == calls[_BMC][i].result.y_offset
            and _rec_i(result, i).metrics.width == color_glyphs[i].bitmap.size[0]
            and _rec_i(result, i).metrics.height == color_glyphs[i].bitmap.size[1]
            for i in range(len(color_glyphs))
        ),
        "index-names-in-glyph-order": lambda ttfont, color_glyphs, result: [n for n in result[0].indexSubTables[0].names] == [ttfont.names[c.glyph_id] for c in color_glyphs],
    }
    native = False
