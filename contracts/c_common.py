"""Shapes shared by several contract modules."""
from vlib import *

AFF = Record("picosvg.svg_transform.Affine2D")
PT = Record("picosvg.geometric_types.Point")
RECT = Record("picosvg.geometric_types.Rect")

# FontConfig with the variable-length fields fixed to empty (they play no role in the
# functions under contract that take a config)
CFG = Record("nanoemoji.config.FontConfig", axes=Const(()), masters=Const(()), source_names=Const(()))

PNG = Obj(size=TupleOf(Int, Int))


def em(config):
    return config.ascender - config.descender
