from vlib import *
import spec
from math import hypot

AFF = Record("picosvg.svg_transform.Affine2D")


def _eps(result):
    k = kind(result)
    return (
        1e-9 * (2 + max(abs(result.center[0]), abs(result.center[1])))
        if k in ("PaintScaleUniformAroundCenter", "PaintScaleAroundCenter")
        else 1e-9
    )


def _summary(transform, target, w):
    """what callers may rely on: the result draws `target` through (approximately) `transform`"""
    T = spec.aff(transform)
    return (
        same(w[1], target)
        # linear part to 1e-9 (almost-equal scales are merged), translation to 1e-9 x int16 range
        and close(w[0][:4], T[:4], 1e-9)
        and close(w[0][4:], T[4:], 1e-9 * 32770)
    )


@contract("nanoemoji.paint.transformed", props=["C16", "C01", "C06"])
class transformed:
    args = {"transform": AFF, "target": Opaque("Paint")}
    # modular use: callers see a ghost `Wrapped(target, m)` with m ~ transform
    returns = lambda transform, target: spec.Wrapped(target, TupleOf(Real, Real, Real, Real, Real, Real))
    modular_ensures = {"summary": lambda transform, target, result: _summary(transform, target, spec.placed(result))}
    ensures = {
        # the modular summary is a consequence of what is proved about the real result
        "summary": lambda transform, target, result: _summary(transform, target, spec.placed(result)),
        # the paint that is emitted denotes the affine it replaces
        "denotes": lambda transform, target, result: (
            spec.aff(transform) == spec.ID
            if same(result, target)
            else close(spec.ot_transform(result), spec.aff(transform), _eps(result))
        ),
        "exact-general": lambda transform, target, result: implies(
            kind(result) == "PaintTransform", spec.ot_transform(result) == spec.aff(transform)
        ),
        "wraps-target": lambda transform, target, result: same(result, target) or same(result.paint, target),
        "identity-iff-untouched": lambda transform, target, result: iff(
            spec.aff(transform) == spec.ID, same(result, target)
        ),
        # values fit the field they are put in; otherwise the general matrix is used
        "ranges": lambda transform, target, result: (
            True
            if same(result, target)
            else (
                (spec.in_int16(result.dx) and spec.in_int16(result.dy))
                if kind(result) == "PaintTranslate"
                else (
                    (spec.in_f2dot14(result.scaleX) and spec.in_f2dot14(result.scaleY))
                    if kind(result) == "PaintScale"
                    else (
                        spec.in_f2dot14(result.scale)
                        if kind(result) == "PaintScaleUniform"
                        else (
                            (
                                spec.in_f2dot14(result.scaleX)
                                and spec.in_f2dot14(result.scaleY)
                                and spec.in_int16(result.center[0])
                                and spec.in_int16(result.center[1])
                            )
                            if kind(result) == "PaintScaleAroundCenter"
                            else (
                                (
                                    spec.in_f2dot14(result.scale)
                                    and spec.in_int16(result.center[0])
                                    and spec.in_int16(result.center[1])
                                )
                                if kind(result) == "PaintScaleUniformAroundCenter"
                                else kind(result) == "PaintTransform"
                            )
                        )
                    )
                )
            )
        ),
    }


@opaque_factory("Paint")
def _paint_token(ident):
    # native stand-in for "some paint subtree": distinct identities give distinct objects
    from nanoemoji.paint import PaintGlyph, PaintSolid
    from nanoemoji.colors import Color

    return PaintGlyph(glyph=f"opaque{ident}", paint=PaintSolid(Color(0, 0, 0, 1.0)))


# ---------------------------------------------------------------------------- gettransform
# Every transform paint's own reading of its fields must be the affine the COLR
# specification assigns to that paint format (spec.ot_transform is written from the spec).

def _gt(cls, **fields):
    return Record("nanoemoji.paint." + cls, **fields)


PT = Record("picosvg.geometric_types.Point")


def _mag(self):
    return 1 + sum(abs(v) for v in spec.ot_transform(self))


@contract("nanoemoji.paint.PaintTransform.gettransform", props=["C16", "C13", "C05", "C03", "C01"])
class gt_transform:
    args = {"self": _gt("PaintTransform", transform=TupleOf(Real, Real, Real, Real, Real, Real))}
    ensures = {"spec": lambda self, result: spec.aff(result) == spec.ot_transform(self)}


@contract("nanoemoji.paint.PaintTranslate.gettransform", props=["C16", "C13", "C05", "C03", "C01"])
class gt_translate:
    args = {"self": _gt("PaintTranslate", dx=Real, dy=Real)}
    ensures = {"spec": lambda self, result: spec.aff(result) == spec.ot_transform(self)}


@contract("nanoemoji.paint.PaintScale.gettransform", props=["C16", "C13", "C05", "C03", "C01"])
class gt_scale:
    args = {"self": _gt("PaintScale")}
    ensures = {"spec": lambda self, result: spec.aff(result) == spec.ot_transform(self)}


@contract("nanoemoji.paint.PaintScaleUniform.gettransform", props=["C16", "C13", "C05", "C03", "C01"])
class gt_scale_uniform:
    args = {"self": _gt("PaintScaleUniform")}
    ensures = {"spec": lambda self, result: spec.aff(result) == spec.ot_transform(self)}


@contract("nanoemoji.paint.PaintScaleAroundCenter.gettransform", props=["C16", "C13", "C05", "C03", "C01"])
class gt_scale_center:
    args = {"self": _gt("PaintScaleAroundCenter")}
    ensures = {"spec": lambda self, result: spec.aff(result) == spec.ot_transform(self)}
    native_ensures = {"spec-close": lambda self, result: close(spec.aff(result), spec.ot_transform(self), 1e-9 * _mag(self))}
    native_skip = ("spec",)


@contract("nanoemoji.paint.PaintScaleUniformAroundCenter.gettransform", props=["C16", "C13", "C05", "C03", "C01"])
class gt_scale_uniform_center:
    args = {"self": _gt("PaintScaleUniformAroundCenter")}
    ensures = {"spec": lambda self, result: spec.aff(result) == spec.ot_transform(self)}
    native_ensures = {"spec-close": lambda self, result: close(spec.aff(result), spec.ot_transform(self), 1e-9 * _mag(self))}
    native_skip = ("spec",)


@contract("nanoemoji.paint.PaintRotate.gettransform", props=["C16", "C13", "C05", "C03", "C01"])
class gt_rotate:
    args = {"self": _gt("PaintRotate")}
    ensures = {"spec": lambda self, result: spec.aff(result) == spec.ot_transform(self)}
    native_ensures = {"spec-close": lambda self, result: close(spec.aff(result), spec.ot_transform(self), 1e-9)}
    native_skip = ("spec",)


@contract("nanoemoji.paint.PaintRotateAroundCenter.gettransform", props=["C16", "C13", "C05", "C03", "C01"])
class gt_rotate_center:
    args = {"self": _gt("PaintRotateAroundCenter")}
    ensures = {"spec": lambda self, result: spec.aff(result) == spec.ot_transform(self)}
    native_ensures = {"spec-close": lambda self, result: close(spec.aff(result), spec.ot_transform(self), 1e-9 * _mag(self))}
    native_skip = ("spec",)


@contract("nanoemoji.paint.PaintSkew.gettransform", props=["C16", "C13", "C05", "C03", "C01"])
class gt_skew:
    args = {"self": _gt("PaintSkew")}
    ensures = {"spec": lambda self, result: spec.aff(result) == spec.ot_transform(self)}
    native_ensures = {"spec-close": lambda self, result: close(spec.aff(result), spec.ot_transform(self), 1e-9 * _mag(self))}
    native_skip = ("spec",)
    native_requires = lambda self: abs(self.xSkewAngle % 180 - 90) > 1 and abs(self.ySkewAngle % 180 - 90) > 1


@contract("nanoemoji.paint.PaintSkewAroundCenter.gettransform", props=["C16", "C13", "C05", "C03", "C01"])
class gt_skew_center:
    args = {"self": _gt("PaintSkewAroundCenter")}
    ensures = {"spec": lambda self, result: spec.aff(result) == spec.ot_transform(self)}
    native_ensures = {"spec-close": lambda self, result: close(spec.aff(result), spec.ot_transform(self), 1e-9 * _mag(self))}
    native_skip = ("spec",)
    native_requires = lambda self: abs(self.xSkewAngle % 180 - 90) > 1 and abs(self.ySkewAngle % 180 - 90) > 1


# ---------------------------------------------------------------------------- uniform / residual split


@contract("nanoemoji.paint._decompose_uniform_transform", props=["C16", "C01", "C13"])
class decompose_uniform:
    args = {"transform": AFF}
    timeout_s = 30  # headroom for a fully loaded machine (decided in ~25 s of small steps when idle)
    returns = TupleOf(AFF, AFF)
    # not (numerically) singular: hypot(a,b)*hypot(c,d) is what picosvg tests against epsilon
    requires = [lambda transform: hypot(transform.a, transform.b) * hypot(transform.c, transform.d) > 2 ** -52]
    # near-singular input ends in an error (never a wrong value)
    may_raise = ("ZeroDivisionError", "AssertionError")
    abstract_round = True  # round(x, 9) as "some real within 5e-10 of x" (sound over-approximation)
    ensures = {
        "uniform-shape": lambda transform, result: (
            result[0].b == 0 and result[0].c == 0 and result[0].a > 0 and abs(result[0].d) == result[0].a
        ),
        "y-sign-kept": lambda transform, result: (result[0].d > 0) == (transform.d >= 0),
        "residual-has-no-translation": lambda transform, result: result[1].e == 0 and result[1].f == 0,
        # the only inexact step is round(9) on the residual, applied after the uniform part
        "recompose": lambda transform, result: close(
            spec.ltr(spec.aff(result[0]), spec.aff(result[1])),
            spec.aff(transform),
            1e-4 + 1e-9 * (result[0].a + abs(result[0].e) + abs(result[0].f)),
        ),
    }
    native_requires = lambda transform: abs(transform.a * transform.d - transform.b * transform.c) > 1e-3


# ---------------------------------------------------------------------------- gradients through a transform

LIN = _gt("PaintLinearGradient", extend=Opaque("Extend"), stops=Opaque("Stops"), p0=PT, p1=PT, p2=PT)
RAD = _gt("PaintRadialGradient", extend=Opaque("Extend"), stops=Opaque("Stops"), c0=PT, c1=PT, r0=Real, r1=Real)


@opaque_factory("Extend")
def _extend_token(ident):
    from nanoemoji.paint import Extend

    return list(Extend)[hash(ident) % 3]


@opaque_factory("Stops")
def _stops_token(ident):
    from nanoemoji.paint import ColorStop
    from nanoemoji.colors import Color

    return (ColorStop(0.0, Color(255, 0, 0, 1.0)), ColorStop(1.0, Color(0, 0, hash(ident) % 256, 0.5)))


def _lin_coords(g):
    return (g.p0[0], g.p0[1], g.p1[0], g.p1[1], g.p2[0], g.p2[1])


def _lin_overflow(g):
    return any(not spec.in_int16(v) for v in _lin_coords(g))


def _rad_overflow(g):
    return any(not spec.in_int16(v) for v in (g.c0[0], g.c0[1], g.c1[0], g.c1[1])) or any(
        not (0 <= r and r <= spec.UINT16_MAX) for r in (g.r0, g.r1)
    )


@contract("nanoemoji.paint.PaintLinearGradient.check_overflows", props=["C16"])
class lin_check_overflows:
    args = {"self": LIN}
    raises = {"OverflowError": lambda self: _lin_overflow(self)}
    ensures = {"returns-self": lambda self, result: same(result, self)}


@contract("nanoemoji.paint.PaintRadialGradient.check_overflows", props=["C16"])
class rad_check_overflows:
    args = {"self": RAD}
    raises = {"OverflowError": lambda self: _rad_overflow(self)}
    ensures = {"returns-self": lambda self, result: same(result, self)}


def _lin_mapped(self, transform):
    T = spec.aff(transform)
    return (spec.pt(T, self.p0), spec.pt(T, self.p1), spec.pt(T, self.p2))


@contract("nanoemoji.paint.PaintLinearGradient.apply_transform", props=["C16", "C01", "C06"])
class lin_apply_transform:
    args = {"self": LIN, "transform": AFF, "check_overflows": Bool}
    raises = {
        "OverflowError": lambda self, transform, check_overflows: check_overflows
        and any(not spec.in_int16(v) for p in _lin_mapped(self, transform) for v in p)
    }
    ensures = {
        # all three points go through the whole affine (p2 is a point, not a direction)
        "geometry": lambda self, transform, result: (
            (tuple(result.p0), tuple(result.p1), tuple(result.p2)) == _lin_mapped(self, transform)
        ),
        "colour-line-kept": lambda self, result: same(result.stops, self.stops) and same(result.extend, self.extend),
        "still-linear": lambda result: kind(result) == "PaintLinearGradient",
    }
    native_skip = ("geometry",)
    native_ensures = {
        "geometry~": lambda self, transform, result: close(
            (tuple(result.p0), tuple(result.p1), tuple(result.p2)), _lin_mapped(self, transform), 1e-6
        )
    }


def _decomp(calls):
    return calls["nanoemoji.paint._decompose_uniform_transform"][0].result


@contract("nanoemoji.paint.PaintRadialGradient.apply_transform", props=["C16", "C01", "C06"])
class rad_apply_transform:
    args = {"self": RAD, "transform": AFF, "check_overflows": Bool}
    requires = [lambda transform: hypot(transform.a, transform.b) * hypot(transform.c, transform.d) > 2 ** -52]
    may_raise = ("ZeroDivisionError", "AssertionError")
    raises = {
        # an error, never a clamped value: iff a mapped centre leaves int16 or a scaled radius leaves uint16
        "OverflowError": lambda self, transform, check_overflows, calls: check_overflows
        and (
            any(not spec.in_int16(v) for c in (self.c0, self.c1) for v in spec.pt(spec.aff(_decomp(calls)[0]), c))
            or any(not (0 <= r * _decomp(calls)[0].a and r * _decomp(calls)[0].a <= spec.UINT16_MAX) for r in (self.r0, self.r1))
        )
    }
    ensures = {
        # with (U, R) the uniform/residual split of `transform` (ghost: the callee's result):
        # the circles are mapped by U alone, radii scaled by U's (positive) scale, and the
        # residual is what wraps the gradient
        "circles-by-uniform-part": lambda self, transform, result, calls: (
            tuple(spec.placed(result)[1].c0) == spec.pt(spec.aff(_decomp(calls)[0]), self.c0)
            and tuple(spec.placed(result)[1].c1) == spec.pt(spec.aff(_decomp(calls)[0]), self.c1)
            and spec.placed(result)[1].r0 == self.r0 * _decomp(calls)[0].a
            and spec.placed(result)[1].r1 == self.r1 * _decomp(calls)[0].a
        ),
        "residual-wraps": lambda self, transform, result, calls: close(
            spec.placed(result)[0], spec.aff(_decomp(calls)[1]), 1e-9 * 32770
        ),
        "colour-line-kept": lambda self, result: same(spec.placed(result)[1].stops, self.stops)
        and same(spec.placed(result)[1].extend, self.extend),
        "still-radial": lambda result: kind(spec.placed(result)[1]) == "PaintRadialGradient",
    }
