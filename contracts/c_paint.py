from vlib import *
import spec

AFF = Record("picosvg.svg_transform.Affine2D")


def _eps(result):
    k = kind(result)
    return (
        1e-9 * (2 + max(abs(result.center[0]), abs(result.center[1])))
        if k in ("PaintScaleUniformAroundCenter", "PaintScaleAroundCenter")
        else 1e-9
    )


@contract("nanoemoji.paint.transformed", props=["C16", "C01", "C06"])
class transformed:
    args = {"transform": AFF, "target": Opaque("Paint")}
    ensures = {
        # the paint that is emitted denotes the affine it replaces
        "denotes": lambda transform, target, result: (
            spec.aff(transform) == spec.ID
            if same(result, target)
            else close(spec.ot_transform(result), spec.aff(transform), _eps(result))
        ),
        "exact-general": lambda transform, target, result: implies(
            kind(result) == "PaintTransform", spec.ot_transform(result) == spec.aff(transform)
        ),
        "wraps-target": lambda transform, target, result: same(result, target) or same(result.paint, target),
        "identity-iff-untouched": lambda transform, target, result: iff(
            spec.aff(transform) == spec.ID, same(result, target)
        ),
        # values fit the field they are put in; otherwise the general matrix is used
        "ranges": lambda transform, target, result: (
            True
            if same(result, target)
            else (
                (spec.in_int16(result.dx) and spec.in_int16(result.dy))
                if kind(result) == "PaintTranslate"
                else (
                    (spec.in_f2dot14(result.scaleX) and spec.in_f2dot14(result.scaleY))
                    if kind(result) == "PaintScale"
                    else (
                        spec.in_f2dot14(result.scale)
                        if kind(result) == "PaintScaleUniform"
                        else (
                            (
                                spec.in_f2dot14(result.scaleX)
                                and spec.in_f2dot14(result.scaleY)
                                and spec.in_int16(result.center[0])
                                and spec.in_int16(result.center[1])
                            )
                            if kind(result) == "PaintScaleAroundCenter"
                            else (
                                (
                                    spec.in_f2dot14(result.scale)
                                    and spec.in_int16(result.center[0])
                                    and spec.in_int16(result.center[1])
                                )
                                if kind(result) == "PaintScaleUniformAroundCenter"
                                else kind(result) == "PaintTransform"
                            )
                        )
                    )
                )
            )
        ),
    }


@opaque_factory("Paint")
def _paint_token(ident):
    # native stand-in for "some paint subtree": distinct identities give distinct objects
    from nanoemoji.paint import PaintGlyph, PaintSolid
    from nanoemoji.colors import Color

    return PaintGlyph(glyph=f"opaque{ident}", paint=PaintSolid(Color(0, 0, 0, 1.0)))
