"""write_font.py: compile step selection and the font skeleton (C20, C07, C04)."""
from vlib import *
import spec

_CFG = lambda **k: Record("nanoemoji.config.FontConfig", axes=Const(()), masters=Const(()), source_names=Const(()), **k)


@contract("ufo2ft.compileTTF", props=["C20", "C07"], dep=True)
class compile_ttf:
    assumed = True
    args = {"ufo": Opaque("ufo"), "overlapsBackend": Str}
    returns = Obj(flavour=Const("ttf"), cff_version=Const(None))
    ensures = {}
    native = False
    note = "ufo2ft.compileTTF returns a TrueType-flavoured TTFont"


@contract("ufo2ft.compileOTF", props=["C20", "C07"], dep=True)
class compile_otf:
    assumed = True
    args = {"ufo": Opaque("ufo"), "cffVersion": Int, "overlapsBackend": Str}
    returns = lambda cffVersion: Obj(flavour=Const("otf"), cff_version=cffVersion)
    ensures = {}
    native = False
    note = "ufo2ft.compileOTF returns a CFF-flavoured TTFont of the requested CFF version"


@contract("nanoemoji.write_font._make_ttfont", props=["C20", "C07"])
class make_ttfont:
    args = {
        "config": _CFG(
            output_file=OneOf(Const("out.ttf"), Const("out.otf"), Const("out.ufo"), Const("dir.x/out.woff2")),
            color_format=OneOf(Const("glyf_colr_1"), Const("cff_colr_1"), Const("cff2_colr_0"), Const("picosvg")),
        ),
        "ufo": Opaque("ufo"),
        "color_glyphs": Const(()),
    }
    # an output the compiler cannot produce is an error, not a silently different flavour
    raises = {"ValueError": lambda config: not (config.output_file.endswith(".ttf") or config.output_file.endswith(".otf") or config.output_file.endswith(".ufo"))}
    ensures = {
        # outline flavour follows the output file name; CFF version follows the format prefix
        "ufo-means-no-binary": lambda config, result: iff(config.output_file.endswith(".ufo"), isnone(result)),
        "ttf": lambda config, result: implies(config.output_file.endswith(".ttf"), (not isnone(result)) and result.flavour == "ttf"),
        "otf": lambda config, result: implies(
            config.output_file.endswith(".otf"),
            (not isnone(result)) and result.flavour == "otf" and result.cff_version == (2 if config.color_format.startswith("cff2_") else 1),
        ),
    }
    native = False


@contract("ufoLib2.Font", props=["C20", "C04"], dep=True)
class ufo_ctor:
    assumed = True
    args = {}
    returns = lambda: spec.GhostUfo()
    ensures = {}
    native = False
    note = "ufoLib2.Font(): an empty font whose info/lib/glyphOrder/newGlyph behave as plain attributes"


@contract("nanoemoji.write_font._draw_notdef", props=["C20", "C04"])
class draw_notdef:
    assumed = True
    args = {"config": _CFG(), "ufo": Opaque("ufo")}
    returns = Const(None)
    ensures = {}
    native = False
    note = "draws ufo2ft's StubGlyph .notdef outline (checked natively: glyph 0 has contours)"


_KEEP = "public.skipExportGlyphs?"  # placeholder, the real key is looked up below


def _keep_value(result):
    return [v for (k, v) in result.lib.items()]


@contract("nanoemoji.write_font._ufo", props=["C20", "C04"])
class ufo_skeleton:
    args = {"config": _CFG(color_format=OneOf(Const("glyf_colr_1"), Const("picosvg"), Const("untouchedsvg"), Const("cbdt"), Const("glyf")))}
    ensures = {
        "family-and-upem": lambda config, result: result.info.familyName == config.family and result.info.unitsPerEm == config.upem,
        # one scheme for all three sets of vertical metrics
        "ascender": lambda config, result: result.info.ascender == config.ascender
        and result.info.openTypeHheaAscender == config.ascender
        and result.info.openTypeOS2TypoAscender == config.ascender,
        "descender": lambda config, result: result.info.descender == config.descender
        and result.info.openTypeHheaDescender == config.descender
        and result.info.openTypeOS2TypoDescender == config.descender,
        "linegap": lambda config, result: result.info.openTypeHheaLineGap == config.linegap and result.info.openTypeOS2TypoLineGap == config.linegap,
        "use-typo-metrics": lambda result: result.info.openTypeOS2Selection == [7],
        "version": lambda config, result: result.info.versionMajor == config.version_major and result.info.versionMinor == config.version_minor,
        # glyph 0 is .notdef, then a blank .space mapped from U+0020 with the configured width
        "skeleton-order": lambda result: result.glyphOrder == [".notdef", ".space"],
        "space": lambda config, result: result.glyphs[".space"].unicodes == [0x20] and result.glyphs[".space"].width == config.width,
        # glyph names are kept when asked for, and always while a build from picosvg-normalised
        # sources is in progress (the OT-SVG table is built against names; post format 3 is
        # applied at the very end, see _generate_color_font)
        "keep-glyph-names": lambda config, result: _keep_value(result)
        == [config.keep_glyph_names or config.color_format in ("picosvg", "picosvgz", "glyf", "glyf_colr_0", "glyf_colr_1")],
    }
    native = False
