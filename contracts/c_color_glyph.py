"""color_glyph.py -- placement of the source in the em box (C01, C02, C04, C20)."""
from vlib import *
import spec
from c_common import AFF, RECT, CFG, em


def _s(view_box, ascender, descender):
    return (ascender - descender) / view_box.h


@contract("nanoemoji.color_glyph.scale_viewbox_to_font_metrics", props=["C01", "C02"])
class scale_viewbox:
    args = {"view_box": RECT, "ascender": Int, "descender": Int, "width": Int}
    returns = AFF
    raises = {
        "AssertionError": lambda descender: descender > 0,
        "ZeroDivisionError": lambda view_box, descender: descender <= 0 and view_box.h == 0,
    }
    ensures = {
        "uniform-scale-to-em-height": lambda view_box, ascender, descender, result: (
            result.a == _s(view_box, ascender, descender) and result.d == result.a and result.b == 0 and result.c == 0
        ),
        # the viewBox origin goes to x = (width - s*vb.w)/2 (centred), y = 0
        "origin": lambda view_box, ascender, descender, width, result: spec.pt(spec.aff(result), (view_box.x, view_box.y))
        == ((width - _s(view_box, ascender, descender) * view_box.w) / 2, 0),
    }
    native_skip = ("origin", "uniform-scale-to-em-height")
    native_ensures = {
        "origin~": lambda view_box, ascender, descender, width, result: close(
            spec.pt(spec.aff(result), (view_box.x, view_box.y)),
            ((width - _s(view_box, ascender, descender) * view_box.w) / 2, 0),
            1e-6 * (1 + abs(width) + abs(result.a) * (abs(view_box.x) + abs(view_box.y) + abs(view_box.w))),
        )
    }
    native_requires = lambda view_box: abs(view_box.h) > 1e-3


def _ydown(p, otsvg):
    """a font-space point (y up) in OT-SVG coordinates (y down, same origin)"""
    return (p[0], -p[1]) if otsvg else p


def _placement(result, view_box, ascender, descender, width, user_transform, top_y, bottom_y, otsvg=False):
    """the statement (C01): viewBox height spans [bottom_y, top_y] = [descender, ascender],
    horizontally centred in the advance, uniform scale, then the user transform -- all in FONT
    coordinates (the option's documentation: "User transform, in font coordinates").  C02: the
    OT-SVG document shows that same placement in OT-SVG coordinates, i.e. with y negated AFTER
    the user transform.  Three non-collinear points pin the affine down completely."""
    U = spec.aff(user_transform)
    R = spec.aff(result)
    cx = view_box.x + view_box.w / 2
    return (
        spec.pt(R, (cx, view_box.y)) == _ydown(spec.pt(U, (width / 2, top_y)), otsvg)
        and spec.pt(R, (cx, view_box.y + view_box.h)) == _ydown(spec.pt(U, (width / 2, bottom_y)), otsvg)
        and spec.pt(R, (cx + view_box.h, view_box.y)) == _ydown(spec.pt(U, (width / 2 + (ascender - descender), top_y)), otsvg)
    )


def _placement_close(result, view_box, ascender, descender, width, user_transform, top_y, bottom_y, otsvg=False):
    U = spec.aff(user_transform)
    R = spec.aff(result)
    cx = view_box.x + view_box.w / 2
    m = 1e-6 * (1 + sum(abs(v) for v in U)) * (1 + abs(width) + abs(ascender) + abs(descender)) * (1 + abs(result.a) * (abs(view_box.x) + abs(view_box.y) + abs(view_box.w) + abs(view_box.h)))
    return (
        close(spec.pt(R, (cx, view_box.y)), _ydown(spec.pt(U, (width / 2, top_y)), otsvg), m)
        and close(spec.pt(R, (cx, view_box.y + view_box.h)), _ydown(spec.pt(U, (width / 2, bottom_y)), otsvg), m)
        and close(spec.pt(R, (cx + view_box.h, view_box.y)), _ydown(spec.pt(U, (width / 2 + (ascender - descender), top_y)), otsvg), m)
    )


_VB_ARGS = {"view_box": RECT, "ascender": Int, "descender": Int, "width": Int, "user_transform": AFF}


@contract("nanoemoji.color_glyph.map_viewbox_to_font_space", props=["C01", "C03", "C20"])
class map_font_space:
    args = _VB_ARGS
    requires = [lambda view_box, descender: descender <= 0 and view_box.h != 0]
    returns = AFF
    ensures = {
        # font space: y up, top of the viewBox at the ascender, bottom at the descender
        "placement": lambda view_box, ascender, descender, width, user_transform, result: _placement(
            result, view_box, ascender, descender, width, user_transform, ascender, descender
        ),
    }
    native_skip = ("placement",)
    native_ensures = {
        "placement~": lambda view_box, ascender, descender, width, user_transform, result: _placement_close(
            result, view_box, ascender, descender, width, user_transform, ascender, descender
        )
    }
    native_requires = lambda view_box: abs(view_box.h) > 1e-3


@contract("nanoemoji.color_glyph.map_viewbox_to_otsvg_space", props=["C02", "C20"])
class map_otsvg_space:
    args = _VB_ARGS
    requires = [lambda view_box, descender: descender <= 0 and view_box.h != 0]
    returns = AFF
    ensures = {
        # OT-SVG: y down, origin on the baseline: the C01 placement (user transform included,
        # in font coordinates) seen with y negated -- top of the em box at y = -ascender,
        # bottom at y = -descender when there is no user transform
        "placement": lambda view_box, ascender, descender, width, user_transform, result: _placement(
            result, view_box, ascender, descender, width, user_transform, ascender, descender, True
        ),
    }
    native_skip = ("placement",)
    native_ensures = {
        "placement~": lambda view_box, ascender, descender, width, user_transform, result: _placement_close(
            result, view_box, ascender, descender, width, user_transform, ascender, descender, True
        )
    }
    native_requires = lambda view_box: abs(view_box.h) > 1e-3


@contract("nanoemoji.color_glyph._advance_width", props=["C01", "C04", "C14", "C20"])
class advance_width:
    args = {"view_box": RECT, "config": CFG}
    returns = Int
    raises = {"ZeroDivisionError": lambda view_box: view_box.h == 0}
    ensures = {
        # statement: the larger of the configured width and round(em height x vb.w / vb.h)
        "value": lambda view_box, config, result: result == max(config.width, round(em(config) * view_box.w / view_box.h)),
    }
    native_requires = lambda view_box: abs(view_box.h) > 1e-3 or view_box.h == 0


@contract("picosvg.svg_transform.Affine2D.fromstring", props=["C01"], dep=True)
class affine_fromstring:
    # string parsing: outside the proved subset; callers only rely on "some affine"
    assumed = True
    args = {"raw_transform": Str}
    returns = AFF
    ensures = {}
    native = False
    note = "returns the affine the SVG transform attribute denotes (picosvg's parser; its own tests)"


_EL = lambda attrib: Obj(attrib=Const(attrib))


def _grad_expected(config, grad_el, shape_bbox, view_box, glyph_width, calls):
    font = spec.aff(calls["nanoemoji.color_glyph.map_viewbox_to_font_space"][0].result)
    units_bbox = grad_el.attrib.get("gradientUnits", "objectBoundingBox") == "objectBoundingBox"
    bbox = (
        ((shape_bbox.w, 0, 0, shape_bbox.h, shape_bbox.x, shape_bbox.y) if (shape_bbox.w != 0 and shape_bbox.h != 0) else (0, 0, 0, 0, 0, 0))
        if units_bbox
        else spec.ID
    )
    g = spec.aff(calls["picosvg.svg_transform.Affine2D.fromstring"][0].result) if "gradientTransform" in grad_el.attrib else spec.ID
    # gradientTransform first, then the bounding-box map, then the viewBox -> font map
    return spec.ltr(g, bbox, font)


@contract("nanoemoji.color_glyph._get_gradient_transform", props=["C01", "C16"])
class get_gradient_transform:
    args = {
        "config": CFG,
        "grad_el": OneOf(
            _EL({}),
            _EL({"gradientUnits": "userSpaceOnUse"}),
            _EL({"gradientUnits": "objectBoundingBox"}),
            _EL({"gradientTransform": Str}),
            _EL({"gradientUnits": "userSpaceOnUse", "gradientTransform": Str}),
            _EL({"gradientUnits": "objectBoundingBox", "gradientTransform": Str}),
        ),
        "shape_bbox": RECT,
        "view_box": RECT,
        "glyph_width": Int,
    }
    requires = [lambda config, view_box: config.descender <= 0 and view_box.h != 0]
    ensures = {
        "composition-order": lambda config, grad_el, shape_bbox, view_box, glyph_width, result, calls: spec.aff(result)
        == _grad_expected(config, grad_el, shape_bbox, view_box, glyph_width, calls),
        "font-map-uses-config": lambda config, view_box, glyph_width, calls: (
            calls["nanoemoji.color_glyph.map_viewbox_to_font_space"][0].args.ascender == config.ascender
            and calls["nanoemoji.color_glyph.map_viewbox_to_font_space"][0].args.descender == config.descender
            and calls["nanoemoji.color_glyph.map_viewbox_to_font_space"][0].args.width == glyph_width
            and spec.aff(calls["nanoemoji.color_glyph.map_viewbox_to_font_space"][0].args.user_transform) == spec.aff(config.transform)
            and calls["nanoemoji.color_glyph.map_viewbox_to_font_space"][0].args.view_box == view_box
        ),
    }
    native = False  # needs lxml elements; covered natively by the end-to-end picture checks


# ---- gradient stops: every opacity that applies multiplies in; the palette index survives ----


@contract("picosvg.svg_meta.number_or_percentage", props=["C01", "C15"], dep=True)
class number_or_percentage_stub:
    assumed = True
    args = {"s": Str}
    returns = Real
    ensures = {"function-of-the-text": lambda s, result: result == ufn("svg_number", "real", s)}
    native = False
    note = "the number an SVG <number> | <percentage> attribute denotes (picosvg parser)"


@contract("nanoemoji.colors.Color.fromstring", props=["C01", "C15"])
class color_fromstring_stub:
    assumed = True
    local_only = True  # in force only for contracts that list it under `stubs` (the real parser is interpreted everywhere else)
    args = {"cls": Opaque("any"), "s": Str}
    returns = Record("nanoemoji.colors.Color")
    ensures = {}
    native = False
    note = "css colour text -> Color(red, green, blue, alpha, palette_index) (string parsing: bounded tier: hex/name/var(--colorN, c) forms, conflicts, opacity multiplication)"


_FS = "nanoemoji.colors.Color.fromstring"
_NP = "picosvg.svg_meta.number_or_percentage"


@contract("nanoemoji.color_glyph._color_stop", props=["C01", "C15", "C02"])
class color_stop:
    stubs = ("nanoemoji.colors.Color.fromstring",)
    args = {
        "stop_el": OneOf(
            Obj(attrib=Const({"offset": Str, "stop-color": Str, "stop-opacity": Str})),
            Obj(attrib=Const({"offset": Str, "stop-color": Str})),
        ),
        "shape_opacity": Real,
    }
    ensures = {
        # colour alpha x stop-opacity (default 1) x the shape's opacity
        "every-opacity-multiplies-in": lambda stop_el, shape_opacity, result, calls: result.color.alpha
        == calls[_FS][0].result.alpha * (ufn("svg_number", "real", stop_el.attrib["stop-opacity"]) if "stop-opacity" in stop_el.attrib else ufn("svg_number", "real", "1")) * shape_opacity,
        # the colour itself -- and a declared palette index -- is the stop-color's
        "colour-and-index-kept": lambda result, calls: (result.color.red, result.color.green, result.color.blue) == (calls[_FS][0].result.red, calls[_FS][0].result.green, calls[_FS][0].result.blue)
        and same(result.color.palette_index, calls[_FS][0].result.palette_index),
        "parsed-from-the-stop-colour": lambda stop_el, calls: calls[_FS][0].args.s == stop_el.attrib["stop-color"],
        # SVG clamps a stop's offset to [0, 1]
        "offset": lambda stop_el, result: result.stopOffset == _clamp01(ufn("svg_number", "real", stop_el.attrib["offset"])),
    }
    native = False


def _clamp01(v):
    return 0.0 if v < 0 else (1.0 if v > 1 else v)


_STOP_EL = lambda: Obj(attrib=Const({"offset": Str, "stop-color": Str}))
_GRAD_EL = lambda spread, n: Elem("linearGradient", attrib=Const(dict({"spreadMethod": spread} if spread else {})), kids=[_STOP_EL() for _ in range(n)])


def _svg_offsets(el):
    """SVG's reading of the stop offsets: clamped to [0, 1], each at least its predecessor"""
    out = []
    for ch in el.children:
        v = _clamp01(ufn("svg_number", "real", ch.attrib["offset"]))
        out.append(v if not out else (out[-1] if v < out[-1] else v))
    return out


@contract("nanoemoji.color_glyph._common_gradient_parts", props=["C01", "C02", "C17"])
class common_gradient_parts:
    """the colour line of a gradient element: SVG's stop list (document order, offsets clamped
    and made non-decreasing) and its spread method; an unknown spread method is an error"""

    stubs = ("nanoemoji.colors.Color.fromstring",)
    args = {
        "el": OneOf(*[_GRAD_EL(sp, n) for sp in (None, "pad", "repeat", "reflect", "mirror", "") for n in (1, 2, 3)]),
        "shape_opacity": Real,
    }
    # (values that differ from SVG's three keywords only in case are left out: SVG treats them
    # as invalid, the code accepts them; nothing is claimed either way)
    scope = "finite: one to three stops; spreadMethod absent, pad, repeat, reflect, mirror or empty"
    raises = {"ValueError": lambda el: el.attrib.get("spreadMethod", "pad") not in ("pad", "repeat", "reflect")}
    ensures = {
        "extend-is-the-spread-method": lambda el, result: result["extend"].name == {"pad": "PAD", "repeat": "REPEAT", "reflect": "REFLECT"}[el.attrib.get("spreadMethod", "pad")],
        "one-stop-per-stop-element": lambda el, result: len(result["stops"]) == len(el.children),
        "colours-parsed-in-document-order": lambda el, calls: len(calls[_FS]) == len(el.children) and all(calls[_FS][i].args.s == el.children[i].attrib["stop-color"] for i in range(len(el.children))),
        "colours-kept-in-document-order": lambda el, result, calls: all(
            result["stops"][i].color.red == calls[_FS][i].result.red and result["stops"][i].color.green == calls[_FS][i].result.green and result["stops"][i].color.blue == calls[_FS][i].result.blue
            for i in range(len(el.children))
        ),
        "offsets-as-svg-reads-them": lambda el, result: all(result["stops"][i].stopOffset == _svg_offsets(el)[i] for i in range(len(el.children))),
    }
    native = False
