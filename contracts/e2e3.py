"""native helpers: maximum_color (C12) and process-level determinism (C08)"""
import io
import os
import subprocess
import sys
import tempfile

import e2e
import c_e2e


def _repo_src():
    return next((p for p in sys.path if p.endswith("/src") and os.path.isdir(os.path.join(p, "nanoemoji"))), "/repo/src")


def gen_max_color(rng):
    fmt = rng.choice(["glyf_colr_1", "glyf_colr_1", "glyf_colr_0", "picosvg"])
    glyphs = e2e.gen_glyphset(rng, n_glyphs=rng.randint(1, 3), gradients=fmt != "glyf_colr_0", groups=fmt == "glyf_colr_1")
    for i, g in enumerate(glyphs):
        g.codepoints = rng.choice([(0x1F600 + i,), (0xE000 + i,)])
    return {
        "glyphs": glyphs,
        "overrides": dict(color_format=fmt, output_file="in.ttf", keep_glyph_names=rng.random() < 0.5),
        "bitmaps": rng.random() < 0.35,
        "keep_names": rng.random() < 0.5,
    }


def run_maximum_color(glyphs, overrides, bitmaps, keep_names):
    from fontTools import ttLib

    cfg = e2e.default_config(**overrides)
    ufo, font_in, inputs, data = e2e.build(glyphs, cfg)
    with tempfile.TemporaryDirectory(prefix="verif_max_") as d:
        src = os.path.join(d, "in.ttf")
        open(src, "wb").write(data)
        cmd = [sys.executable, "-m", "nanoemoji.maximum_color", "--build_dir", os.path.join(d, "b"), "--keep_glyph_names" if keep_names else "--nokeep_glyph_names"]
        if bitmaps:
            cmd.append("--bitmaps")
        cmd.append(src)
        env = dict(os.environ, PYTHONPATH=_repo_src(), PATH="/venv/bin:" + os.environ.get("PATH", ""))
        r = subprocess.run(cmd, cwd=d, env=env, capture_output=True, text=True, timeout=900)
        out = {"exit": r.returncode, "stderr": (r.stdout[-1500:] + r.stderr[-1500:]), "cfg": cfg, "font_in": font_in, "font_out": None}
        if r.returncode == 0:
            outs = [f for f in os.listdir(os.path.join(d, "b")) if f in ("Font.ttf", "AnEmojiFamily.ttf")]
            if outs:
                out["font_out"] = ttLib.TTFont(io.BytesIO(open(os.path.join(d, "b", outs[0]), "rb").read()), lazy=False)
        return out


def max_color_problems(glyphs, overrides, bitmaps, keep_names, result):
    if result["exit"] != 0 and bitmaps and "Bitmap is too big for CBDT" in result["stderr"]:
        # a glyph too wide for CBDT's 8-bit metrics at the default resolution is rejected
        # with an error (C14 / C17 allow exactly that); nothing was written
        return []
    if result["exit"] != 0 or result["font_out"] is None:
        return [("maximum_color failed", result["stderr"][-600:])]
    fi, fo, cfg = result["font_in"], result["font_out"], result["cfg"]
    bad = []
    cm_i, cm_o = fi.getBestCmap(), fo.getBestCmap()
    gid_i = {cp: fi.getGlyphID(n) for cp, n in cm_i.items()}
    gid_o = {cp: fo.getGlyphID(n) for cp, n in cm_o.items()}
    if set(cm_i) != set(cm_o):
        bad.append(("character map changed", sorted(set(cm_i) ^ set(cm_o))))
    had_colr = "COLR" in fi
    want = {"SVG "} if had_colr else {"COLR", "CPAL"}
    if not want <= set(fo.keys()):
        bad.append(("complementary table missing", sorted(want - set(fo.keys()))))
    if (had_colr and "COLR" not in fo) or (not had_colr and "SVG " not in fo):
        bad.append("original colour table dropped")
    if bitmaps and not {"CBDT", "CBLC"} <= set(fo.keys()):
        bad.append("no CBDT/CBLC although --bitmaps was given")
    if (fo["post"].formatType == 3) != (not keep_names):
        bad.append(("glyph names kept/stripped", fo["post"].formatType, keep_names))
    if bad:
        return bad
    colr_in = e2e.ColrEval(fi) if had_colr else None
    svg_in = c_e2e._otsvg_eval(fi) if not had_colr else None
    colr_out = e2e.ColrEval(fo)
    svg_out = c_e2e._otsvg_eval(fo)
    for g in glyphs:
        cp = g.codepoints[0]
        ni, no = cm_i[cp], cm_o[cp]
        if fi["hmtx"][ni][0] != fo["hmtx"][no][0]:
            bad.append((hex(cp), "advance changed", fi["hmtx"][ni][0], fo["hmtx"][no][0]))
        adv = fo["hmtx"][no][0]
        F = e2e.placement(g.viewbox, cfg.ascender, cfg.descender, adv, tuple(cfg.transform))
        s = (cfg.ascender - cfg.descender) / g.viewbox[3]
        margin = (4.0 + 0.4 * s) / s
        if e2e.has_hard_stop(g):
            continue
        for p in e2e.sample_points(g.viewbox, 8):
            if e2e.near_edge(g, p, margin):
                continue
            q = e2e.ap(F, p)
            q_svg = (q[0], -q[1])
            a = colr_in.glyph_color(ni, q) if had_colr else svg_in(0, ni, q_svg)
            b1 = colr_out.glyph_color(no, q)
            b2 = svg_out(0, no, q_svg)
            for label, x in (("COLR", b1), ("SVG", b2)):
                if a is None or x is None:
                    continue
                if isinstance(a, str) or isinstance(x, str) or not e2e.color_close(a, x, 10, 0.05):
                    delta = (1.5 + 0.5 * e2e.gradient_t_at(g, p)) / s + 0.3
                    if not isinstance(x, str) and not isinstance(a, str) and e2e.within_envelope(g, p, x, delta, 10, 0.05):
                        continue
                    bad.append((hex(cp), label, p, a, x))
        if bitmaps:
            found = sum(1 for data in fo["CBDT"].strikeData if no in data)
            if found != 1:
                bad.append((hex(cp), "bitmaps for glyph", found))
    return bad[:6]


# ---------------------------------------------------------------------------- C08


def gen_determinism(rng):
    fmt = rng.choice(["glyf_colr_1", "glyf_colr_1", "picosvg", "glyf_colr_0"])
    glyphs = e2e.gen_glyphset(rng, n_glyphs=rng.randint(2, 4), gradients=fmt != "glyf_colr_0", groups=fmt == "glyf_colr_1")
    for i, g in enumerate(glyphs):
        g.codepoints = (0x1F600 + i,)
    vary = rng.choice(["argv-order", "hash-seed", "build-dir", "cwd", "cwd", "jobs"])
    return {"glyphs": glyphs, "fmt": fmt, "vary": vary, "seed": rng.randrange(1 << 20)}


def _cli(d, files, fmt, build_dir, env_extra=None, cwd=None, jobs=None):
    env = dict(os.environ, PYTHONPATH=_repo_src(), PATH="/venv/bin:" + os.environ.get("PATH", ""), SOURCE_DATE_EPOCH="1600000000")
    env.update(env_extra or {})
    cmd = [sys.executable, "-m", "nanoemoji.nanoemoji", "--color_format", fmt, "--build_dir", build_dir, "--output_file", "F.ttf"]
    if jobs is not None:
        cmd += ["--noexec_ninja"]
    cmd += files
    r = subprocess.run(cmd, cwd=cwd or d, env=env, capture_output=True, text=True, timeout=900)
    if r.returncode == 0 and jobs is not None:
        r = subprocess.run(["ninja", "-C", build_dir, "-j", str(jobs)], cwd=cwd or d, env=env, capture_output=True, text=True, timeout=900)
    if r.returncode != 0:
        return None, r.stderr[-800:] + r.stdout[-400:]
    return open(os.path.join(build_dir, "F.ttf"), "rb").read(), ""


def run_twice(glyphs, fmt, vary, seed):
    import random

    rng = random.Random(seed)
    with tempfile.TemporaryDirectory(prefix="verif_det_") as d:
        # sources live in two directories whose order disagrees with the order of the file
        # names (so "sorted by how the path was spelled" and "sorted by absolute path" differ)
        for sub in ("src", "src/d1", "src/d2"):
            os.makedirs(os.path.join(d, sub), exist_ok=True)
        files = []
        for i, g in enumerate(glyphs):
            sub = "src/d1" if (len(glyphs) - 1 - i) % 2 == 0 else "src/d2"
            p = os.path.join(d, sub, "emoji_u%x.svg" % g.codepoints[0])
            open(p, "w").write(e2e.svg_text(g))
            files.append(p)
        abs_files = list(files)
        if vary == "cwd" or rng.random() < 0.5:
            files = [os.path.relpath(p, d) for p in abs_files]
        b1 = os.path.join(d, "build1")
        a, err = _cli(d, files, fmt, b1, {"PYTHONHASHSEED": "1"})
        if a is None:
            return {"error": err}
        files2 = list(files)
        env2 = {"PYTHONHASHSEED": "1"}
        b2 = os.path.join(d, "build2")
        cwd2 = None
        jobs = None
        if vary == "argv-order":
            rng.shuffle(files2)
            files2.reverse()
        elif vary == "hash-seed":
            env2["PYTHONHASHSEED"] = str(rng.randint(2, 9999))
        elif vary == "build-dir":
            b2 = os.path.join(d, "deep", "er", "dir", "b")
            os.makedirs(os.path.dirname(b2))
        elif vary == "cwd":
            # the same files, named relative to another working directory
            cands = [os.path.join(d, "elsewhere"), os.path.join(d, "src", "d1"), os.path.join(d, "src", "d2"), os.path.join(d, "src")]
            os.makedirs(cands[0], exist_ok=True)
            # prefer a directory from which the spelled paths sort differently
            differs = [c for c in cands if sorted(abs_files, key=lambda p: os.path.relpath(p, c)) != sorted(abs_files)]
            cwd2 = rng.choice(differs) if differs and rng.random() < 0.8 else rng.choice(cands)
            files2 = [os.path.relpath(p, cwd2) for p in abs_files]
        elif vary == "jobs":
            jobs = 1
        b, err = _cli(d, files2, fmt, b2, env2, cwd=cwd2, jobs=jobs)
        if b is None:
            return {"error": err}
        return {"same": a == b, "len": (len(a), len(b))}
