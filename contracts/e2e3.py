"""native helpers: maximum_color (C12) and process-level determinism (C08)"""
import io
import os
import subprocess
import sys
import tempfile

import e2e
import c_e2e


def _repo_src():
    return next((p for p in sys.path if p.endswith("/src") and os.path.isdir(os.path.join(p, "nanoemoji"))), "/repo/src")


def gen_max_color(rng, i=None):
    # stratified by case index: every run of >= 8 cases holds COLRv1 / COLRv0 / OT-SVG inputs,
    # small and larger glyph sets, with and without a shape shared by non-adjacent glyphs
    if i is None:
        i = rng.randrange(8)
    fmt = ["glyf_colr_1", "picosvg", "glyf_colr_0", "glyf_colr_1", "picosvg", "glyf_colr_1", "glyf_colr_0", "picosvg"][i % 8]
    n_glyphs = [4, 3, 3, 1, 4, 3, 4, 2][i % 8]
    share = [True, False, True, False, True, False, False, False][i % 8]
    glyphs = e2e.gen_glyphset(rng, n_glyphs=n_glyphs, gradients=fmt != "glyf_colr_0", groups=fmt == "glyf_colr_1")
    for _ in range(40):
        # with --bitmaps a 2:1 viewBox renders 256 px wide at the default resolution, which
        # CBDT cannot hold (rejected, as C14 allows): keep those out of the bitmap cases
        if i % 8 not in (1, 4, 5) or all(g.viewbox[2] <= 1.5 * g.viewbox[3] for g in glyphs):
            break
        glyphs = e2e.gen_glyphset(rng, n_glyphs=n_glyphs, gradients=fmt != "glyf_colr_0", groups=fmt == "glyf_colr_1")
    if i % 8 in (0, 5):
        # the text foreground colour, translucent (COLRv1 keeps its alpha on the paint)
        sh = next((x for x in e2e.all_shapes(glyphs[0]) if isinstance(x.fill, e2e.Solid)), None)
        if sh is not None:
            sh.fill = e2e.Solid((0, 0, 0), 1.0)
            sh.fill.current = True
            sh.opacity = 0.5
    overflow = i % 8 in (3, 7)
    if overflow:
        # ink outside the viewBox (built with clip_to_viewbox off): every colour table must
        # keep it
        g0 = glyphs[0]
        x, y, w, h = g0.viewbox
        g0.items.append(e2e.Shape([(x - 0.25 * w, y + 0.3 * h), (x + 0.2 * w, y + 0.3 * h), (x + 0.2 * w, y + 0.6 * h), (x - 0.25 * w, y + 0.6 * h)], e2e.Solid(e2e._rgb(rng)), 1.0))
    if i % 8 == 4:
        # a source that paints nothing sits between the others: its glyph is no colour glyph,
        # so the colour glyphs do not form one run of consecutive glyph ids
        # (index 2 gets a glyph name that sorts between the others, see the codepoints below)
        glyphs[2].items = []
    if len(glyphs) >= 3 and share:
        # the first and the last glyph share a shape that the ones in between do not have
        # (OT-SVG keeps sharing glyphs in one document: the glyph order must change)
        sh = glyphs[0].items[0]
        if isinstance(sh, e2e.Shape) and glyphs[0].viewbox == glyphs[-1].viewbox:
            glyphs[-1].items.append(e2e.Shape(list(sh.pts), e2e.Solid(e2e._rgb(rng)), 1.0))
    # codepoints whose glyph names (a, g_30, A, g_1f600 ...) need not sort like the input order
    pool = [0x30, 0x61, 0x41, 0x7A, 0x39, 0x2764, 0x1F600, 0x1F601, 0xE000, 0xE001]
    cps = rng.sample(pool, len(glyphs))
    if len(glyphs) >= 3:
        from nanoemoji.glyph import glyph_name

        # input order deliberately unlike glyph-name order
        cps.sort(key=lambda c: glyph_name((c,)), reverse=True)
        cps[0], cps[1] = cps[1], cps[0]
    for k, g in enumerate(glyphs):
        g.codepoints = (cps[k],)
    return {
        "glyphs": glyphs,
        # font metrics by case index: default (advance 1275), narrower fixed advances, proportional
        "overrides": dict([{}, dict(upem=1000, ascender=800, descender=-200, width=1000), dict(upem=2048, ascender=1900, descender=-500, width=0), dict(width=600)][i % 4], color_format=fmt, output_file="in.ttf", clip_to_viewbox=not overflow, keep_glyph_names=rng.random() < 0.5, _layout=len(glyphs) >= 3 and i % 8 in (0, 2, 5, 6), _hhea=[None, (150, -60), (0, -40), None, (210, 0)][i % 5],
                          # options given to maximum_color itself: they must reach the step that builds the added tables
                          _mc_flags={1: ["--clipbox_quantization", "64"], 7: ["--clipbox_quantization", "30"], 4: ["--bitmap_resolution", "64"], 5: ["--bitmap_resolution", "96"]}.get(i % 8, [])),
        "bitmaps": i % 8 in (1, 4, 5),
        "keep_names": rng.random() < 0.5,
    }


def run_maximum_color(glyphs, overrides, bitmaps, keep_names):
    from fontTools import ttLib

    overrides = dict(overrides)
    layout = overrides.pop("_layout", False)
    hhea = overrides.pop("_hhea", None)
    mc_flags = overrides.pop("_mc_flags", [])
    cfg = e2e.default_config(**overrides)
    ufo, font_in, inputs, data = e2e.build(glyphs, cfg)
    if hhea:
        # the common real-world layout: hhea / win metrics larger than the typo metrics (the
        # em box of the colour glyphs is the typo one)
        font_in["hhea"].ascent += hhea[0]
        font_in["hhea"].descent += hhea[1]
        font_in["OS/2"].usWinAscent += hhea[0]
        font_in["OS/2"].usWinDescent += -hhea[1]
        buf = io.BytesIO()
        font_in.save(buf)
        data = buf.getvalue()
        font_in = ttLib.TTFont(io.BytesIO(data), lazy=False)
    if layout:
        # kerning and mark attachment between the colour glyphs themselves: the last glyph is
        # the mark, the others are bases with pairwise different anchors
        from fontTools.feaLib.builder import addOpenTypeFeaturesFromString

        cm = font_in.getBestCmap()
        names = [cm[g.codepoints[0]] for g in glyphs]
        bases, mark = names[:-1], names[-1]
        fea = f"markClass {mark} <anchor 10 20> @TOP;\nfeature mark {{\n"
        for i, b in enumerate(bases):
            fea += f"  pos base {b} <anchor {100 + 37 * i} {500 + 11 * i}> mark @TOP;\n"
        fea += "} mark;\nfeature kern {\n"
        for i, b in enumerate(bases):
            fea += f"  pos {b} {bases[(i + 1) % len(bases)]} {-20 - 7 * i};\n"
        fea += "} kern;\n"
        addOpenTypeFeaturesFromString(font_in, fea)
        buf = io.BytesIO()
        font_in.save(buf)
        data = buf.getvalue()
        font_in = ttLib.TTFont(io.BytesIO(data), lazy=False)
    with tempfile.TemporaryDirectory(prefix="verif_max_") as d:
        src = os.path.join(d, "in.ttf")
        open(src, "wb").write(data)
        cmd = [sys.executable, "-m", "nanoemoji.maximum_color", "--build_dir", os.path.join(d, "b"), "--keep_glyph_names" if keep_names else "--nokeep_glyph_names"]
        if bitmaps:
            cmd.append("--bitmaps")
        cmd += list(mc_flags)
        cmd.append(src)
        env = dict(os.environ, PYTHONPATH=_repo_src(), PATH="/venv/bin:" + os.environ.get("PATH", ""), SOURCE_DATE_EPOCH="1600000000", PYTHONHASHSEED="1")
        r = subprocess.run(cmd, cwd=d, env=env, capture_output=True, text=True, timeout=900)
        out = {"exit": r.returncode, "stderr": (r.stdout[-1500:] + r.stderr[-1500:]), "cfg": cfg, "font_in": font_in, "font_out": None, "same_bytes_other_hash_seed": None, "mc_flags": list(mc_flags)}
        if r.returncode == 0:
            outs = [f for f in os.listdir(os.path.join(d, "b")) if f in ("Font.ttf", "AnEmojiFamily.ttf")]
            if outs:
                data1 = open(os.path.join(d, "b", outs[0]), "rb").read()
                out["font_out"] = ttLib.TTFont(io.BytesIO(data1), lazy=False)
                # the same pipeline in a fresh build directory under another hash seed
                same = True
                # (an OT-SVG input takes the COLR-donation path, which handles sets of glyph
                # names: two more seeds there)
                for k in range(1 if "COLR" in font_in else 3):
                    bk = os.path.join(d, f"b{k + 2}")
                    cmd2 = [c if c != os.path.join(d, "b") else bk for c in cmd]
                    r2 = subprocess.run(cmd2, cwd=d, env=dict(env, PYTHONHASHSEED=str(2 + 31 * k + len(data1) % 997)), capture_output=True, text=True, timeout=900)
                    p2 = os.path.join(bk, outs[0])
                    same = same and r2.returncode == 0 and os.path.exists(p2) and open(p2, "rb").read() == data1
                out["same_bytes_other_hash_seed"] = same
        return out


def layout_facts_by_codepoint(font):
    """mark attachment and pair kerning of GPOS keyed by codepoints (glyph names and ids may
    change): {("base", cp, mark class): anchor, ("mark", cp): (class, anchor), ("kern", cp1, cp2): value}"""
    if "GPOS" not in font:
        return {}
    rev = {}
    for cp, n in font.getBestCmap().items():
        rev.setdefault(n, cp)
    facts = {}
    anchor = lambda a: None if a is None else (a.XCoordinate, a.YCoordinate)
    for lookup in font["GPOS"].table.LookupList.Lookup:
        for st in lookup.SubTable:
            if hasattr(st, "ExtSubTable"):
                st = st.ExtSubTable
            if lookup.LookupType in (4,) or type(st).__name__ == "MarkBasePos":
                for i, g in enumerate(st.BaseCoverage.glyphs):
                    for k, a in enumerate(st.BaseArray.BaseRecord[i].BaseAnchor):
                        facts[("base", rev.get(g, g), k)] = anchor(a)
                for i, g in enumerate(st.MarkCoverage.glyphs):
                    mr = st.MarkArray.MarkRecord[i]
                    facts[("mark", rev.get(g, g))] = (mr.Class, anchor(mr.MarkAnchor))
            elif type(st).__name__ == "PairPos" and st.Format == 1:
                for i, g in enumerate(st.Coverage.glyphs):
                    for pv in st.PairSet[i].PairValueRecord:
                        v1 = pv.Value1
                        facts[("kern", rev.get(g, g), rev.get(pv.SecondGlyph, pv.SecondGlyph))] = getattr(v1, "XAdvance", None) if v1 is not None else None
            elif type(st).__name__ == "PairPos" and st.Format == 2:
                c1 = st.ClassDef1.classDefs if st.ClassDef1 else {}
                c2 = st.ClassDef2.classDefs if st.ClassDef2 else {}
                for g in st.Coverage.glyphs:
                    for g2 in set(c2) | set(font.getGlyphOrder()):
                        rec = st.Class1Record[c1.get(g, 0)].Class2Record[c2.get(g2, 0)]
                        v = getattr(rec.Value1, "XAdvance", None) if rec.Value1 is not None else None
                        if v:
                            facts[("kern", rev.get(g, g), rev.get(g2, g2))] = v
    return facts


def max_color_problems(glyphs, overrides, bitmaps, keep_names, result):
    if result["exit"] != 0 and bitmaps and "Bitmap is too big for CBDT" in result["stderr"]:
        # a glyph too wide for CBDT's 8-bit metrics at the default resolution is rejected
        # with an error (C14 / C17 allow exactly that); nothing was written
        return []
    if result["exit"] != 0 or result["font_out"] is None:
        return [("maximum_color failed", result["stderr"][-600:])]
    fi, fo, cfg = result["font_in"], result["font_out"], result["cfg"]
    flags_ = result.get("mc_flags", [])
    mc = dict(zip(flags_[0::2], flags_[1::2]))
    bad = []
    cm_i, cm_o = fi.getBestCmap(), fo.getBestCmap()
    gid_i = {cp: fi.getGlyphID(n) for cp, n in cm_i.items()}
    gid_o = {cp: fo.getGlyphID(n) for cp, n in cm_o.items()}
    if set(cm_i) != set(cm_o):
        bad.append(("character map changed", sorted(set(cm_i) ^ set(cm_o))))
    had_colr = "COLR" in fi
    want = {"SVG "} if had_colr else {"COLR", "CPAL"}
    if not want <= set(fo.keys()):
        bad.append(("complementary table missing", sorted(want - set(fo.keys()))))
    if (had_colr and "COLR" not in fo) or (not had_colr and "SVG " not in fo):
        bad.append("original colour table dropped")
    if bitmaps and not {"CBDT", "CBLC"} <= set(fo.keys()):
        bad.append("no CBDT/CBLC although --bitmaps was given")
    if (fo["post"].formatType == 3) != (not keep_names):
        bad.append(("glyph names kept/stripped", fo["post"].formatType, keep_names))
    if bad:
        return bad
    li, lo = layout_facts_by_codepoint(fi), layout_facts_by_codepoint(fo)
    if li != lo:
        diff = sorted(k for k in set(li) | set(lo) if li.get(k) != lo.get(k))
        bad.append(("layout meaning changed", [(k, li.get(k), lo.get(k)) for k in diff[:4]]))
        return bad
    colr_in = e2e.ColrEval(fi) if had_colr else None
    svg_in = c_e2e._otsvg_eval(fi) if not had_colr else None
    colr_out = e2e.ColrEval(fo)
    svg_out = c_e2e._otsvg_eval(fo)
    for g in glyphs:
        cp = g.codepoints[0]
        ni, no = cm_i[cp], cm_o[cp]
        if fi["hmtx"][ni][0] != fo["hmtx"][no][0]:
            bad.append((hex(cp), "advance changed", fi["hmtx"][ni][0], fo["hmtx"][no][0]))
        adv = fo["hmtx"][no][0]
        if not g.items:
            # a source that paints nothing: no colour glyph, nothing to compare
            if bitmaps and any(no in data for data in fo["CBDT"].strikeData):
                bad.append((hex(cp), "bitmap for a glyph that paints nothing"))
            continue
        F = e2e.placement(g.viewbox, cfg.ascender, cfg.descender, adv, tuple(cfg.transform))
        s = (cfg.ascender - cfg.descender) / g.viewbox[3]
        margin = (4.0 + 0.4 * s) / s
        if e2e.has_hard_stop(g):
            continue
        vx, vy, vw, vh = g.viewbox
        # (also left and right of the viewBox: ink there must survive in every table)
        for p in e2e.sample_points(g.viewbox, 8) + e2e.sample_points((vx - 0.3 * vw, vy, 0.3 * vw, vh), 4):
            if e2e.near_edge(g, p, margin):
                continue
            q = e2e.ap(F, p)
            q_svg = (q[0], -q[1])
            a = colr_in.glyph_color(ni, q) if had_colr else svg_in(0, ni, q_svg)
            b1 = colr_out.glyph_color(no, q)
            b2 = svg_out(0, no, q_svg)
            for label, x in (("COLR", b1), ("SVG", b2)):
                if a is None or x is None:
                    continue
                if isinstance(a, str) or isinstance(x, str) or not e2e.color_close(a, x, 10, 0.05):
                    delta = (1.5 + 0.5 * e2e.gradient_t_at(g, p)) / s + 0.3
                    if not isinstance(x, str) and not isinstance(a, str) and e2e.within_envelope(g, p, x, delta, 10, 0.05):
                        continue
                    bad.append((hex(cp), label, p, a, x))
        if bitmaps:
            found = sum(1 for data in fo["CBDT"].strikeData if no in data)
            if found != (1 if g.items else 0):
                bad.append((hex(cp), "bitmaps for glyph", found))
            # C14 for the added bitmaps: the strike size follows --bitmap_resolution and the
            # bitmap's box sits on the em box scaled to the strike's ppem
            for strike, data in zip(fo["CBLC"].strikes, fo["CBDT"].strikeData):
                if no in data:
                    bm = data[no]
                    h_ = bm.metrics.height
                    want_h = int(mc.get("--bitmap_resolution", 128))
                    if h_ != want_h:
                        bad.append((hex(cp), "bitmap height", h_, want_h))
                    ppem = strike.bitmapSizeTable.ppemY
                    F_ = cfg.ascender - cfg.descender
                    if ppem != round(cfg.upem * h_ / F_):
                        bad.append((hex(cp), "strike ppem", ppem, round(cfg.upem * h_ / F_)))
                    tol = 2 if bm.metrics.BearingY in (127, -128) else 1
                    if F_ <= 2 * cfg.upem and abs(bm.metrics.BearingY - cfg.ascender * ppem / cfg.upem) > tol + 1e-9:
                        bad.append((hex(cp), "CBDT top edge", bm.metrics.BearingY, cfg.ascender * ppem / cfg.upem))
    q = mc.get("--clipbox_quantization")
    if q and not had_colr and fo["COLR"].version == 1 and fo["COLR"].table.ClipList:
        for nm, box in fo["COLR"].table.ClipList.clips.items():
            if any(v % int(q) for v in (box.xMin, box.yMin, box.xMax, box.yMax)):
                bad.append(("clip box of the added COLR table is not a multiple of --clipbox_quantization", nm, q, (box.xMin, box.yMin, box.xMax, box.yMax)))
                break
    return bad[:6]


# ---------------------------------------------------------------------------- C08


_DET_CASES = [
    ("glyf_colr_1", "cwd"),
    ("untouchedsvg", "build-dir-in-src"),
    ("picosvg", "hash-seed"),
    ("glyf_colr_0", "argv-order"),
    ("untouchedsvg", "cwd"),
    ("glyf_colr_1", "jobs"),
    ("picosvg", "build-dir"),
    ("glyf_colr_1", "hash-seed"),
]


def gen_determinism(rng, i=None):
    # stratified: every run of >= 8 cases varies each factor, on vector, OT-SVG and untouched-SVG builds
    fmt, vary = _DET_CASES[i % len(_DET_CASES)] if i is not None else rng.choice(_DET_CASES)
    glyphs = e2e.gen_glyphset(rng, n_glyphs=rng.randint(2, 4), gradients=fmt != "glyf_colr_0", groups=fmt == "glyf_colr_1")
    for k, g in enumerate(glyphs):
        g.codepoints = (0x1F600 + k,)
    return {"glyphs": glyphs, "fmt": fmt, "vary": vary, "seed": rng.randrange(1 << 20)}


def _cli(d, files, fmt, build_dir, env_extra=None, cwd=None, jobs=None):
    env = dict(os.environ, PYTHONPATH=_repo_src(), PATH="/venv/bin:" + os.environ.get("PATH", ""), SOURCE_DATE_EPOCH="1600000000")
    env.update(env_extra or {})
    cmd = [sys.executable, "-m", "nanoemoji.nanoemoji", "--color_format", fmt, "--build_dir", build_dir, "--output_file", "F.ttf"]
    if jobs is not None:
        cmd += ["--noexec_ninja"]
    cmd += files
    r = subprocess.run(cmd, cwd=cwd or d, env=env, capture_output=True, text=True, timeout=900)
    if r.returncode == 0 and jobs is not None:
        r = subprocess.run(["ninja", "-C", build_dir, "-j", str(jobs)], cwd=cwd or d, env=env, capture_output=True, text=True, timeout=900)
    if r.returncode != 0:
        return None, r.stderr[-800:] + r.stdout[-400:]
    return open(os.path.join(build_dir, "F.ttf"), "rb").read(), ""


def run_twice(glyphs, fmt, vary, seed):
    import random

    rng = random.Random(seed)
    with tempfile.TemporaryDirectory(prefix="verif_det_") as d:
        # sources live in two directories whose order disagrees with the order of the file
        # names (so "sorted by how the path was spelled" and "sorted by absolute path" differ)
        for sub in ("src", "src/d1", "src/d2"):
            os.makedirs(os.path.join(d, sub), exist_ok=True)
        files = []
        for i, g in enumerate(glyphs):
            sub = "src/d1" if (len(glyphs) - 1 - i) % 2 == 0 else "src/d2"
            p = os.path.join(d, sub, "emoji_u%x.svg" % g.codepoints[0])
            open(p, "w").write(e2e.svg_text(g))
            files.append(p)
        abs_files = list(files)
        if vary == "cwd" or rng.random() < 0.5:
            files = [os.path.relpath(p, d) for p in abs_files]
        b1 = os.path.join(d, "build1")
        a, err = _cli(d, files, fmt, b1, {"PYTHONHASHSEED": "1"})
        if a is None:
            return {"error": err}
        files2 = list(files)
        env2 = {"PYTHONHASHSEED": "1"}
        b2 = os.path.join(d, "build2")
        cwd2 = None
        jobs = None
        if vary == "argv-order":
            rng.shuffle(files2)
            files2.reverse()
        elif vary == "hash-seed":
            env2["PYTHONHASHSEED"] = str(rng.randint(2, 9999))
        elif vary == "build-dir":
            b2 = os.path.join(d, "deep", "er", "dir", "b")
            os.makedirs(os.path.dirname(b2), exist_ok=True)
        elif vary == "build-dir-in-src":
            # inside the source directory that sorts first (paths relative to the build
            # directory then look different for sources next to it and sources elsewhere)
            b2 = os.path.join(d, "src", "d1", "out")
        elif vary == "cwd":
            # the same files, named relative to another working directory
            cands = [os.path.join(d, "elsewhere"), os.path.join(d, "src", "d1"), os.path.join(d, "src", "d2"), os.path.join(d, "src")]
            os.makedirs(cands[0], exist_ok=True)
            # prefer a directory from which the spelled paths sort differently
            differs = [c for c in cands if sorted(abs_files, key=lambda p: os.path.relpath(p, c)) != sorted(abs_files)]
            cwd2 = rng.choice(differs) if differs and rng.random() < 0.8 else rng.choice(cands)
            files2 = [os.path.relpath(p, cwd2) for p in abs_files]
        elif vary == "jobs":
            jobs = 1
        b, err = _cli(d, files2, fmt, b2, env2, cwd=cwd2, jobs=jobs)
        if b is None:
            return {"error": err}
        return {"same": a == b, "len": (len(a), len(b))}


# ---------------------------------------------------------------------------- glue_together._copy_cbdt


def gen_copy_cbdt(rng, i=None):
    """colour glyphs interrupted by glyphs that paint nothing: the bitmap strikes have to be
    re-sharded into several runs of consecutive glyph ids"""
    import e2e2

    if i is None:
        i = rng.randrange(4)
    pattern = [[1, 0, 1], [1, 1, 0, 1], [1, 0, 1, 0, 1], [1, 1, 1]][i % 4]
    glyphs = []
    for k, colour in enumerate(pattern):
        g = e2e2._simple_glyph(rng, (0xE000 + k,))
        if not colour:
            g.items = []
        glyphs.append(g)
    pngs = [e2e2._png(64, 64, (20 + 50 * k % 230, 200 - 40 * k % 200, 10 * k % 250)) if c else None for k, c in enumerate(pattern)]
    return {"glyphs": glyphs, "pngs": pngs}


def run_copy_cbdt(glyphs, pngs):
    import e2e2
    from fontTools import ttLib
    from nanoemoji import glue_together

    cfg = e2e.default_config(color_format="glyf_colr_1", output_file="t.ttf", keep_glyph_names=True)
    _, target, _, _ = e2e.build(glyphs, cfg)
    coloured = [(g, p) for g, p in zip(glyphs, pngs) if p is not None]
    donor = e2e2.build_any([g for g, _ in coloured], dict(color_format="cbdt", output_file="d.ttf", bitmap_resolution=64, keep_glyph_names=True, _pngs=[p for _, p in coloured]))["font"]
    glue_together._copy_cbdt(target, donor)
    buf = io.BytesIO()
    target.save(buf)
    data = buf.getvalue()
    font = ttLib.TTFont(io.BytesIO(data), lazy=False)
    buf2 = io.BytesIO()
    font.save(buf2)
    again = ttLib.TTFont(io.BytesIO(buf2.getvalue()), lazy=False)
    return {"font": font, "again": again}


def copy_cbdt_problems(glyphs, pngs, result):
    from nanoemoji.glyph import glyph_name

    font, again = result["font"], result["again"]
    bad = []
    order = font.getGlyphOrder()
    strikes = list(zip(font["CBLC"].strikes, font["CBDT"].strikeData))
    covered = {}
    for st, data in strikes:
        lo, hi = st.bitmapSizeTable.startGlyphIndex, st.bitmapSizeTable.endGlyphIndex
        names = [n for sub in st.indexSubTables for n in sub.names]
        gids = [order.index(n) for n in names]
        if gids != list(range(lo, hi + 1)):
            bad.append(("strike does not index one run of consecutive glyph ids", (lo, hi), gids))
        if set(names) != set(data):
            bad.append(("strike index and strike data disagree", sorted(names), sorted(data)))
        for n in names:
            covered[n] = covered.get(n, 0) + 1
    for g, p in zip(glyphs, pngs):
        n = glyph_name(g.codepoints)
        if p is None:
            if covered.get(n):
                bad.append((n, "bitmap for a glyph that paints nothing"))
            continue
        if covered.get(n) != 1:
            bad.append((n, "bitmaps for glyph", covered.get(n, 0)))
            continue
        img = [bytes(data[n].imageData) for _, data in strikes if n in data]
        if img != [p]:
            bad.append((n, "image bytes differ"))
    a = {n: bytes(d[n].imageData) for d in font["CBDT"].strikeData for n in d}
    b = {n: bytes(d[n].imageData) for d in again["CBDT"].strikeData for n in d}
    if a != b:
        bad.append(("bitmaps change on re-save", sorted(set(a) ^ set(b))))
    return bad
