"""glyph_reuse.py -- C06 (reuse never changes the picture), C19 (a reported match is taken)."""
from vlib import *
import spec
from c_common import AFF

PATHOBJ = Obj(d=Str)


@contract("picosvg.svg_types.SVGPath", props=["C06", "C19"], dep=True)
class svgpath_ctor:
    assumed = True
    args = {"d": Str}
    returns = lambda d: spec.GhostPath(d)
    ensures = {}
    native = False
    note = "SVGPath(d=...) keeps the path data it is given; apply_transform is a function of (data, affine)"


def N(d, tol):
    """picosvg's affine-invariant normal form, as an uninterpreted function of path and tolerance"""
    return ufn("picosvg_normalize", "str", d, tol)


def AB_some(d0, d1, tol):
    return ufn("picosvg_affine_between_found", "bool", d0, d1, tol)


def AB(d0, d1, tol):
    return tuple(ufn("picosvg_affine_between_" + c, "real", d0, d1, tol) for c in "abcdef")


@contract("picosvg.svg_reuse.normalize", props=["C06", "C19"], dep=True)
class normalize:
    assumed = True
    args = {"path": PATHOBJ, "tolerance": Real}
    # a positive tolerance is what picosvg needs (round_multiple divides by it)
    requires = [lambda tolerance: tolerance > 0]
    returns = lambda path, tolerance: Obj(d=Str)
    ensures = {"functional": lambda path, tolerance, result: result.d == N(path.d, tolerance)}
    native = False
    note = "deterministic function of (path, tolerance); invariant under isometries (its own tests + bounded conformance in C19)"


@contract("picosvg.svg_reuse.affine_between", props=["C06", "C19"], dep=True)
class affine_between:
    assumed = True
    args = {"s1": PATHOBJ, "s2": PATHOBJ, "tolerance": Real}
    returns = Optional_(AFF)
    ensures = {
        "functional": lambda s1, s2, tolerance, result: iff(not isnone(result), AB_some(s1.d, s2.d, tolerance))
        and (isnone(result) or spec.aff(result) == AB(s1.d, s2.d, tolerance)),
        # an affine that maps one real outline onto another is invertible
        "invertible": lambda result: isnone(result) or abs(spec.det(spec.aff(result))) > 2 ** -52,
    }
    native = False
    note = "when it returns an affine A, A maps s1 onto s2 within the tolerance (picosvg's own tests)"


CACHE = Instance(
    "nanoemoji.glyph_reuse.GlyphReuseCache",
    _reuse_tolerance=Real,
    _known_glyphs=SetOf(Str),
    _reusable_paths=MapOf(Str, TupleOf(Str, Str)),
    _normalize_tolerance=Real,
)


def cache_ok(self):
    """representation invariant (the constructor): the normalisation tolerance is a tenth of
    the reuse tolerance; C06: reuse is either disabled (-1) or uses ANY non-negative
    tolerance.  (Tolerance 0 violates picosvg's precondition: known finding F9.)"""
    return self._normalize_tolerance == self._reuse_tolerance / 10 and (
        self._reuse_tolerance == -1 or self._reuse_tolerance >= 0
    )


def _key(self, path):
    return N(path, self._normalize_tolerance)


def _donor(self, path):
    return map_get(self._reusable_paths, _key(self, path))


def _match(self, path):
    """picosvg reports a usable match: a donor with the same normal form, an affine between
    them, and that affine fits OpenType Fixed"""
    return (
        self._reuse_tolerance != -1
        and map_has(self._reusable_paths, _key(self, path))
        and AB_some(_donor(self, path)[1], path, self._reuse_tolerance)
        and all(spec.in_fixed(v) for v in AB(_donor(self, path)[1], path, self._reuse_tolerance))
    )


@contract("nanoemoji.glyph_reuse.GlyphReuseCache.try_reuse", props=["C06", "C19", "C16"])
class try_reuse:
    args = {"self": CACHE, "path": Str}
    requires = [lambda self: cache_ok(self)]
    returns = Optional_(Record("nanoemoji.glyph_reuse.ReuseResult"))
    raises = {"AssertionError": lambda self, path: map_has_set(self._known_glyphs, path) or not path.startswith("M")}
    ensures = {
        # C19: a match picosvg reports is never declined; C06: nothing else is ever returned
        "reuses-iff-match": lambda self, path, result: iff(not isnone(result), _match(self, path)),
        "donor-and-affine": lambda self, path, result: isnone(result)
        or (
            result.glyph_name == _donor(self, path)[0]
            and spec.aff(result.transform) == AB(_donor(self, path)[1], path, self._reuse_tolerance)
        ),
        # C16: never an affine that cannot be stored as Fixed
        "fixed-safe": lambda result: isnone(result) or all(spec.in_fixed(v) for v in result.transform),
        "reuse-disabled": lambda self, result: implies(self._reuse_tolerance == -1, isnone(result)),
        "cache-untouched": lambda self, old: map_same(self._reusable_paths, old.self._reusable_paths)
        and map_same(self._known_glyphs, old.self._known_glyphs),
    }
    native = False


@contract("nanoemoji.glyph_reuse.GlyphReuseCache.add_glyph", props=["C06", "C19"])
class add_glyph:
    args = {"self": CACHE, "glyph_name": Str, "glyph_path": Str}
    requires = [lambda self: cache_ok(self)]
    raises = {"AssertionError": lambda glyph_path: not glyph_path.startswith("M")}
    ensures = {
        "registered-under-its-normal-form": lambda self, glyph_name, glyph_path, old: map_is_update(
            self._reusable_paths,
            old.self._reusable_paths,
            glyph_path if old.self._reuse_tolerance == -1 else _key(old.self, glyph_path),
            (glyph_name, glyph_path),
        ),
        "known": lambda self, glyph_name, old: set_is_add(self._known_glyphs, old.self._known_glyphs, glyph_name),
    }
    native = False


@contract("nanoemoji.glyph_reuse.GlyphReuseCache.is_known_glyph", props=["C06"])
class is_known_glyph:
    args = {"self": CACHE, "glyph_name": Str}
    returns = Bool
    ensures = {"membership": lambda self, glyph_name, result: iff(result, map_has_set(self._known_glyphs, glyph_name))}
    native = False
