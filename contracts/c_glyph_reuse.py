"""glyph_reuse.py -- C06 (reuse never changes the picture), C19 (a reported match is taken)."""
from vlib import *
import spec
from c_common import AFF

PATHOBJ = Obj(d=Str)


@contract("picosvg.svg_types.SVGPath", props=["C06", "C19"], dep=True)
class svgpath_ctor:
    assumed = True
    args = {"d": Str}
    returns = lambda d: spec.GhostPath(d)
    ensures = {}
    native = False
    note = "SVGPath(d=...) keeps the path data it is given; apply_transform is a function of (data, affine)"


def N(d, tol):
    """picosvg's affine-invariant normal form, as an uninterpreted function of path and tolerance"""
    return ufn("picosvg_normalize", "str", d, tol)


def AB_some(d0, d1, tol):
    return ufn("picosvg_affine_between_found", "bool", d0, d1, tol)


def AB(d0, d1, tol):
    return tuple(ufn("picosvg_affine_between_" + c, "real", d0, d1, tol) for c in "abcdef")


@contract("picosvg.svg_reuse.normalize", props=["C06", "C19"], dep=True)
class normalize:
    assumed = True
    args = {"path": PATHOBJ, "tolerance": Real}
    # a positive tolerance is what picosvg needs (round_multiple divides by it)
    requires = [lambda tolerance: tolerance > 0]
    returns = lambda path, tolerance: Obj(d=Str)
    ensures = {"functional": lambda path, tolerance, result: result.d == N(path.d, tolerance)}
    native = False
    note = "deterministic function of (path, tolerance); invariant under isometries (its own tests + bounded conformance in C19)"


@contract("picosvg.svg_reuse.affine_between", props=["C06", "C19"], dep=True)
class affine_between:
    assumed = True
    args = {"s1": PATHOBJ, "s2": PATHOBJ, "tolerance": Real}
    returns = Optional_(AFF)
    ensures = {
        "functional": lambda s1, s2, tolerance, result: iff(not isnone(result), AB_some(s1.d, s2.d, tolerance))
        and (isnone(result) or spec.aff(result) == AB(s1.d, s2.d, tolerance)),
        # an affine that maps one real outline onto another is invertible
        "invertible": lambda result: isnone(result) or abs(spec.det(spec.aff(result))) > 2 ** -52,
    }
    native = False
    note = "when it returns an affine A, A maps s1 onto s2 within the tolerance (picosvg's own tests)"


CACHE = Instance(
    "nanoemoji.glyph_reuse.GlyphReuseCache",
    _reuse_tolerance=Real,
    _known_glyphs=SetOf(Str),
    _reusable_paths=MapOf(Str, TupleOf(Str, Str)),
    _normalize_tolerance=Real,
)


def cache_ok(self):
    """representation invariant (the constructor): the normalisation tolerance is a tenth of
    the reuse tolerance; C06 and the option's help text: ANY negative value disables reuse,
    ANY non-negative one is a tolerance.  (Tolerance 0 violates picosvg's precondition:
    known finding F9.)"""
    return self._normalize_tolerance == self._reuse_tolerance / 10


def _key(self, path):
    return N(path, self._normalize_tolerance)


def _donor(self, path):
    return map_get(self._reusable_paths, _key(self, path))


def _match(self, path):
    """picosvg reports a usable match: a donor with the same normal form, an affine between
    them, and that affine fits OpenType Fixed"""
    return (
        self._reuse_tolerance >= 0
        and map_has(self._reusable_paths, _key(self, path))
        and AB_some(_donor(self, path)[1], path, self._reuse_tolerance)
        and all(spec.in_fixed(v) for v in AB(_donor(self, path)[1], path, self._reuse_tolerance))
    )


@contract("nanoemoji.glyph_reuse.GlyphReuseCache.try_reuse", props=["C06", "C19", "C16"])
class try_reuse:
    args = {"self": CACHE, "path": Str}
    requires = [lambda self: cache_ok(self)]
    returns = Optional_(Record("nanoemoji.glyph_reuse.ReuseResult"))
    raises = {"AssertionError": lambda self, path: map_has_set(self._known_glyphs, path) or not path.startswith("M")}
    ensures = {
        # C19: a match picosvg reports is never declined; C06: nothing else is ever returned
        "reuses-iff-match": lambda self, path, result: iff(not isnone(result), _match(self, path)),
        "donor-and-affine": lambda self, path, result: isnone(result)
        or (
            result.glyph_name == _donor(self, path)[0]
            and spec.aff(result.transform) == AB(_donor(self, path)[1], path, self._reuse_tolerance)
        ),
        # C16: never an affine that cannot be stored as Fixed
        "fixed-safe": lambda result: isnone(result) or all(spec.in_fixed(v) for v in result.transform),
        "reuse-disabled": lambda self, result: implies(self._reuse_tolerance < 0, isnone(result)),
        "cache-untouched": lambda self, old: map_same(self._reusable_paths, old.self._reusable_paths)
        and map_same(self._known_glyphs, old.self._known_glyphs),
    }
    native = False


@contract("nanoemoji.glyph_reuse.GlyphReuseCache.add_glyph", props=["C06", "C19"])
class add_glyph:
    args = {"self": CACHE, "glyph_name": Str, "glyph_path": Str}
    requires = [lambda self: cache_ok(self)]
    raises = {"AssertionError": lambda glyph_path: not glyph_path.startswith("M")}
    ensures = {
        "registered-under-its-normal-form": lambda self, glyph_name, glyph_path, old: map_is_update(
            self._reusable_paths,
            old.self._reusable_paths,
            glyph_path if old.self._reuse_tolerance < 0 else _key(old.self, glyph_path),
            (glyph_name, glyph_path),
        ),
        "known": lambda self, glyph_name, old: set_is_add(self._known_glyphs, old.self._known_glyphs, glyph_name),
    }
    native = False


@contract("nanoemoji.glyph_reuse.GlyphReuseCache.is_known_glyph", props=["C06"])
class is_known_glyph:
    args = {"self": CACHE, "glyph_name": Str}
    returns = Bool
    ensures = {"membership": lambda self, glyph_name, result: iff(result, map_has_set(self._known_glyphs, glyph_name))}
    native = False


# ---- native conformance: a reported reuse really lands the donor on the shape ----------------
# (this is what the summary of picosvg.svg_reuse.affine_between above ASSUMES)


def _path_of(pts):
    return "M" + " L".join(f"{x:g},{y:g}" for x, y in pts) + " Z"


def _gen_reuse_case(rng, i=None):
    import math

    n = rng.randint(3, 6)
    pts = [(rng.randint(0, 400), rng.randint(0, 400)) for _ in range(n)]
    k = (i if i is not None else rng.randrange(6)) % 6
    e, f = rng.randint(-300, 300), rng.randint(-300, 300)
    if k == 0:
        m = (1, 0, 0, 1, e, f)
    elif k == 1:
        t = math.radians(rng.choice([30, 90, 200]))
        m = (math.cos(t), math.sin(t), -math.sin(t), math.cos(t), e, f)
    elif k == 2:
        m = (-1, 0, 0, 1, e, f)
    elif k == 3:
        s = rng.choice([0.5, 2, 3.5])
        m = (s, 0, 0, s, e, f)
    elif k == 4:
        m = (rng.choice([0.5, 2]), 0, 0, rng.choice([0.75, 1.5]), e, f)
    else:
        m = (1, 0, 0, 1, 0, 0)
    tol = rng.choice([0.1, 0.5, 1.0])
    target = [(m[0] * x + m[2] * y + m[4], m[1] * x + m[3] * y + m[5]) for x, y in pts]
    # a near-miss: ONE vertex displaced by less / more than the tolerance
    # (well inside or far outside: in the band just above the tolerance picosvg may still
    # report a best-fit affine -- known finding K9b, exercised by its recorded witness only)
    j, d = rng.randrange(n), rng.choice([0, 0, 0.4, 40]) * tol
    target[j] = (target[j][0] + d, target[j][1])
    return {"donor": pts, "target": [(round(x, 4), round(y, 4)) for x, y in target], "tol": tol}


def _try_reuse_points(donor, target, tol):
    from nanoemoji.glyph_reuse import GlyphReuseCache

    cache = GlyphReuseCache(tol)
    cache.add_glyph("donor", _path_of(donor))
    r = cache.try_reuse(_path_of(target))
    return None if r is None else tuple(r.transform)


def _worst_miss(donor, target, m):
    return max(max(abs(m[0] * x + m[2] * y + m[4] - tx), abs(m[1] * x + m[3] * y + m[5] - ty)) for (x, y), (tx, ty) in zip(donor, target))


def _staircase(dx, dy, n=30):
    pts, x, y = [(5, 5)], 5, 5
    for _ in range(n):
        x += dx
        pts.append((round(x, 4), y))
        y += dy
        pts.append((round(x, 4), y))
    pts.append((5, y))
    return pts


@contract("nanoemoji.glyph_reuse.GlyphReuseCache.try_reuse", props=["C06", "C19"])
class try_reuse_lands_within_tolerance:
    bounded_only = True
    gen = _gen_reuse_case
    native_call = _try_reuse_points
    n_quick = 120
    n_thorough = 3000
    ensures = {
        # C06: "each layer's outline placed within the reuse tolerance of its counterpart"
        # (+ 1/2: the statement's "plus quantisation" -- the cache works in font units, outlines
        # are rounded to integers; picosvg also rounds the affine it reports)
        "reported-affine-maps-donor-onto-shape": lambda donor, target, tol, result: result is None or _worst_miss(donor, target, result) <= tol + 0.5,
    }
    known_witnesses = {
        "K9": lambda: {"donor": _staircase(2, 2), "target": _staircase(2.09, 2), "tol": 0.1},
        "K9b": lambda: {"donor": [(340, 158), (187, 50), (256, 231), (281, 287)], "target": [(340, 158), (189.5, 50), (256, 231), (281, 287)], "tol": 1.0},
    }


# ---- C19: an exact translated copy of a shape the cache holds is drawn from that shape ----
#
# The cache keys donors by picosvg's normal form (at tolerance / 10).  C19 needs: whatever else
# was added in between, a later exact copy of an earlier shape finds it.


def _gen_cache_history(rng, i=None):
    # shapes of pairwise different vertex counts (so that no two share a normal form), added in
    # random order, then an exactly translated copy of each
    shapes = []
    for n in rng.sample([3, 4, 5, 6, 7], rng.randint(2, 4)):
        cx, cy, r = rng.randint(200, 800), rng.randint(200, 800), rng.randint(60, 150)
        import math

        pts = [(round(cx + r * (1 + 0.3 * ((k * 7) % 3)) * math.cos(2 * math.pi * k / n)), round(cy + r * math.sin(2 * math.pi * k / n))) for k in range(n)]
        shapes.append(pts)
    return {"history": shapes, "shifts": [(rng.randint(-150, 150), rng.randint(-150, 150)) for _ in shapes], "tol": rng.choice([0.1, 0.5])}


def _k12_witness():
    x = [(100, 100), (500, 100), (500, 500), (100, 500)]
    y = [(100, 100), (500, 100), (500, 501), (100, 500)]  # not congruent to x, same normal form
    return {"history": [x, y], "shifts": [(200, 100), (50, 60)], "tol": 0.1}


def _run_cache_history(history, shifts, tol):
    from nanoemoji.glyph_reuse import GlyphReuseCache

    cache = GlyphReuseCache(tol)
    owners = []
    for k, pts in enumerate(history):
        d = _path_of(pts)
        r = cache.try_reuse(d)
        if r is None:
            cache.add_glyph(f"g{k}", d)
            owners.append(f"g{k}")
        else:
            owners.append(r.glyph_name)
    out = []
    for k, (pts, (dx, dy)) in enumerate(zip(history, shifts)):
        r = cache.try_reuse(_path_of([(x + dx, y + dy) for x, y in pts]))
        out.append(None if r is None else (r.glyph_name, tuple(round(v, 6) for v in r.transform)))
    return {"owners": owners, "copies": out}


@contract("nanoemoji.glyph_reuse.GlyphReuseCache.try_reuse", props=["C19", "C06"])
class cache_finds_every_earlier_shape:
    bounded_only = True
    gen = _gen_cache_history
    native_call = _run_cache_history
    n_quick = 100
    n_thorough = 3000
    known_witnesses = {"K12": _k12_witness}
    ensures = {
        # every exact translated copy is drawn from the glyph that holds its original, by that
        # translation
        "copies-drawn-from-their-originals": lambda history, shifts, result: all(
            c is not None and c[0] == result["owners"][k] and max(abs(c[1][0] - 1), abs(c[1][1]), abs(c[1][2]), abs(c[1][3] - 1), abs(c[1][4] - shifts[k][0]), abs(c[1][5] - shifts[k][1])) <= 0.01
            for k, c in enumerate(result["copies"])
        ),
    }
