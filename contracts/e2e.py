"""Native end-to-end harness used by the bounded tier (c_e2e.py).

Generates small sets of source SVGs from a *specification object* (shapes, fills,
gradients, group opacity, copies of shapes that trigger reuse), builds real fonts with
nanoemoji's own entry points and compares pictures by sampling:

  source side : SVG semantics evaluated directly on the specification (no picosvg, no
                nanoemoji code) and placed in the em box by the formula of property C01;
  font side   : the compiled binary decoded with fontTools and evaluated with COLR v1 / v0 /
                OT-SVG semantics by the small evaluators below.

This is a bounded stand-in (sampling, generated inputs); it is never counted as proved.
"""
import io
import math
import os
import random
import tempfile
from pathlib import Path

# --------------------------------------------------------------------------- specification


class Solid:
    def __init__(self, rgb, alpha=1.0, index=None):
        self.rgb, self.alpha, self.index = rgb, alpha, index


class Linear:
    def __init__(self, p1, p2, stops, units, gt, spread):
        self.p1, self.p2, self.stops, self.units, self.gt, self.spread = p1, p2, stops, units, gt, spread


class Radial:
    def __init__(self, c, r, f, stops, units, gt, spread):
        self.c, self.r, self.f, self.stops, self.units, self.gt, self.spread = c, r, f, stops, units, gt, spread


class Shape:
    def __init__(self, pts, fill, opacity=1.0):
        self.pts, self.fill, self.opacity = pts, fill, opacity


class Group:
    def __init__(self, opacity, shapes):
        self.opacity, self.shapes = opacity, shapes


class GlyphSpec:
    def __init__(self, viewbox, items, codepoints):
        self.viewbox, self.items, self.codepoints = viewbox, items, codepoints

    def __repr__(self):
        return f"GlyphSpec({svg_text(self)!r}, cps={self.codepoints})"


def _rgb(rng):
    # black is SVG's default paint: elements painted black carry no fill attribute at all
    if rng.random() < 0.12:
        return (0, 0, 0)
    return (rng.randrange(256), rng.randrange(256), rng.randrange(256))


def _stops(rng, spread="pad"):
    n = rng.choice([2, 2, 3])
    # usually from 0 to 1; sometimes the first stop lies after 0 and/or the last before 1
    # (common in hand-drawn art: the end colours then pad inside the gradient vector)
    lo, hi = (0.0, 1.0)
    k = rng.random()
    if spread != "pad":
        # known finding F20 (repeat / reflect with stops that do not span [0, 1]): that class
        # is exercised by its recorded witness, not drawn at random
        k = 1.0
    if k < 0.12:
        lo = rng.choice([0.1, 0.25])
    elif k < 0.24:
        hi = rng.choice([0.6, 0.85])
    elif k < 0.3:
        lo, hi = 0.2, 0.75
    offs = sorted({lo, hi} | {round(rng.uniform(lo + 0.15 * (hi - lo), hi - 0.15 * (hi - lo)), 2) for _ in range(n - 2)})
    if spread == "pad" and 0.3 <= k < 0.36:
        # offsets SVG has to repair: outside [0, 1] (clamped) or smaller than the one before
        # (raised to it)
        offs = rng.choice([[0.0, 1.4], [-0.5, 1.0], [0.0, 0.6, 0.3, 1.0], [0.2, 0.1, 0.9]])
    return [(o, _rgb(rng), rng.choice([1.0, 1.0, 128 / 255])) for o in offs]


def _poly(rng, vb):
    x, y, w, h = vb
    kind = rng.choice(["rect", "rect", "tri", "quad"])
    x0 = x + rng.randint(1, int(w * 0.5))
    y0 = y + rng.randint(1, int(h * 0.5))
    ww = rng.randint(max(6, int(w * 0.15)), int(w * 0.45))
    hh = rng.randint(max(6, int(h * 0.15)), int(h * 0.45))
    if kind == "rect":
        return [(x0, y0), (x0 + ww, y0), (x0 + ww, y0 + hh), (x0, y0 + hh)]
    if kind == "tri":
        return [(x0, y0), (x0 + ww, y0 + hh // 3), (x0 + ww // 3, y0 + hh)]
    return [(x0, y0), (x0 + ww, y0 + hh // 4), (x0 + ww - 2, y0 + hh), (x0 + ww // 5, y0 + hh - 3)]


def _bbox(pts):
    xs, ys = [p[0] for p in pts], [p[1] for p in pts]
    return (min(xs), min(ys), max(xs) - min(xs), max(ys) - min(ys))


def _gt(rng):
    r = rng.random()
    if r < 0.5:
        return None
    if r < 0.65:
        return (1, 0, 0, 1, rng.randint(-5, 5), rng.randint(-5, 5))
    if r < 0.8:
        return (rng.choice([0.5, 1.5, 2]), 0, 0, rng.choice([0.5, 1, 1.5]), 0, 0)
    a = math.radians(rng.choice([30, 45, 90]))
    return (round(math.cos(a), 6), round(math.sin(a), 6), round(-math.sin(a), 6), round(math.cos(a), 6), 0, 0)


def _fill(rng, pts, allow_gradient=True):
    r = rng.random()
    if r < 0.55 or not allow_gradient:
        # sometimes the fill colour carries its own alpha (#RRGGBBAA)
        s_ = Solid(_rgb(rng), rng.choice([1.0, 1.0, 1.0, 128 / 255, 64 / 255]))
        if s_.rgb == (0, 0, 0) and s_.alpha == 1.0 and rng.random() < 0.5:
            s_.current = True
        return s_
    bx, by, bw, bh = _bbox(pts)
    units = rng.choice(["userSpaceOnUse", "objectBoundingBox"])
    spread = rng.choice(["pad", "pad", "reflect", "repeat"])
    if r < 0.8:
        if units == "userSpaceOnUse":
            p1, p2 = (bx, by), (bx + bw, by + rng.choice([0, bh]))
        else:
            p1, p2 = (0, 0), (1, rng.choice([0, 1]))
        return Linear(p1, p2, _stops(rng, spread), units, _gt(rng), spread)
    if units == "userSpaceOnUse":
        c, rad = (bx + bw / 2, by + bh / 2), max(bw, bh) / 2
    else:
        c, rad = (0.5, 0.5), 0.5
    f = c if rng.random() < 0.7 else (c[0] + rad * 0.25, c[1])
    return Radial(c, rad, f, _stops(rng, spread), units, _gt(rng), spread)


_VIEWBOXES = [(0, 0, 100, 100), (0, 0, 128, 128), (0, 0, 200, 100), (0, 0, 60, 120), (10, 20, 80, 80)]


def _xform_pts(pts, m):
    a, b, c, d, e, f = m
    return [(a * x + c * y + e, b * x + d * y + f) for x, y in pts]


def gen_glyphset(rng, n_glyphs=None, gradients=True, groups=True, reuse=True):
    n = n_glyphs or rng.randint(1, 4)
    vb = rng.choice(_VIEWBOXES)
    glyphs = []
    pool = []
    fills = {}
    id_of = lambda pts_: tuple(map(tuple, pts_))
    for gi in range(n):
        if rng.random() < 0.25:
            vb = rng.choice(_VIEWBOXES)
        items = []
        for si in range(rng.randint(1, 3)):
            if reuse and pool and rng.random() < 0.45:
                # a congruent / similar copy of an earlier shape (translation, flip, scale)
                src = rng.choice(pool)
                kind = rng.choice(["t", "t", "flip", "scale", "vflip", "rot", "scalexy", "same"])
                cx = sum(p[0] for p in src) / len(src)
                cy = sum(p[1] for p in src) / len(src)
                if kind == "same":
                    m = (1, 0, 0, 1, 0, 0)
                elif kind == "t":
                    m = (1, 0, 0, 1, rng.randint(-8, 8), rng.randint(-8, 8))
                elif kind == "flip":
                    m = (-1, 0, 0, 1, 2 * cx, 0)
                elif kind == "vflip":
                    m = (1, 0, 0, -1, 0, 2 * cy)
                elif kind == "rot":
                    a = math.radians(rng.choice([30, 90, -45]))
                    ca, sa = math.cos(a), math.sin(a)
                    m = (ca, sa, -sa, ca, cx - ca * cx + sa * cy, cy - sa * cx - ca * cy)
                elif kind == "scalexy":
                    sx_, sy_ = rng.choice([(1.0, 0.5), (0.5, 1.0), (0.75, 0.5)])
                    m = (sx_, 0, 0, sy_, cx * (1 - sx_), cy * (1 - sy_))
                else:
                    s = rng.choice([0.5, 0.75])
                    m = (s, 0, 0, s, cx * (1 - s), cy * (1 - s))
                pts = [(round(x, 3), round(y, 3)) for x, y in _xform_pts(src, m)]
                x, y, w, h = vb
                if not all(x <= px <= x + w and y <= py <= y + h for px, py in pts):
                    pts = _poly(rng, vb)
            else:
                pts = _poly(rng, vb)
            same_fill = None
            if reuse and pool and pts in pool and fills.get(id_of(pts)) is not None and rng.random() < 0.7:
                same_fill = fills[id_of(pts)]  # an identical shape with the identical paint
            pool.append(pts)
            fill = same_fill or _fill(rng, pts, gradients)
            fills[id_of(pts)] = fill
            items.append(Shape(pts, fill, rng.choice([1.0, 1.0, 0.5, 0.25])))
        if groups and len(items) >= 2 and rng.random() < 0.3:
            items = [Group(0.5, items[:2])] + items[2:]
            if len(items) >= 2 and rng.random() < 0.35:
                # an opacity group inside an opacity group (different opacities), followed by
                # a sibling of the inner group that is painted after it
                inner = Group(0.25, [Shape(_poly(rng, vb), Solid(_rgb(rng)), 1.0), Shape(_poly(rng, vb), Solid(_rgb(rng)), 1.0)])
                pool.extend(sh.pts for sh in inner.shapes)
                items[0] = Group(0.5, [items[0].shapes[0], inner, items[0].shapes[1]])
        glyphs.append(GlyphSpec(vb, items, (0xE000 + gi,)))
    return glyphs


# --------------------------------------------------------------------------- SVG text


def _hex(rgb):
    return "#%02X%02X%02X" % rgb


def _n(v):
    return ("%.6f" % v).rstrip("0").rstrip(".")


def svg_text(g):
    defs, body = [], []
    gid = [0]

    def shape_xml(s):
        d = "M" + " L".join(f"{_n(x)},{_n(y)}" for x, y in s.pts) + " Z"
        attrs = f'd="{d}"'
        f = s.fill
        if isinstance(f, Solid):
            col = _hex(f.rgb) + ("" if f.alpha == 1.0 else "%02X" % round(f.alpha * 255))
            if getattr(f, "current", False) and f.rgb == (0, 0, 0) and f.alpha == 1.0 and getattr(f, "index", None) is None:
                # the text foreground colour (evaluated as black on both sides)
                col = "currentColor"
            if getattr(f, "index", None) is not None:
                col = f"var(--color{f.index}, {col})"
            attrs += f' fill="{col}"'
        else:
            gid[0] += 1
            ident = f"grad{gid[0]}"
            # a stop's alpha is written as stop-opacity, or inside the colour (#RRGGBBAA), or
            # split over both (0.5 = 0x80/255 x 0.996...: only exact splits are used)
            def stop_xml(o, c, a):
                if a != 1 and (c[0] + c[1] + c[2]) % 3 == 0:
                    return f'<stop offset="{_n(o)}" stop-color="{_hex(c)}{round(a * 255):02X}"/>'
                return f'<stop offset="{_n(o)}" stop-color="{_hex(c)}"' + (f' stop-opacity="{_n(a)}"' if a != 1 else "") + "/>"

            stops = "".join(stop_xml(o, c, a) for o, c, a in f.stops)
            common = f' gradientUnits="{f.units}"' + (f' spreadMethod="{f.spread}"' if f.spread != "pad" else "")
            if f.gt:
                common += ' gradientTransform="matrix(' + " ".join(_n(v) for v in f.gt) + ')"'
            if isinstance(f, Linear):
                defs.append(
                    f'<linearGradient id="{ident}" x1="{_n(f.p1[0])}" y1="{_n(f.p1[1])}" x2="{_n(f.p2[0])}" y2="{_n(f.p2[1])}"{common}>{stops}</linearGradient>'
                )
            else:
                defs.append(
                    f'<radialGradient id="{ident}" cx="{_n(f.c[0])}" cy="{_n(f.c[1])}" r="{_n(f.r)}" fx="{_n(f.f[0])}" fy="{_n(f.f[1])}"{common}>{stops}</radialGradient>'
                )
            attrs += f' fill="url(#{ident})"'
        if s.opacity != 1:
            attrs += f' opacity="{_n(s.opacity)}"'
        return f"<path {attrs}/>"

    def item_xml(it):
        if isinstance(it, Group):
            return f'<g opacity="{_n(it.opacity)}">' + "".join(item_xml(s) for s in it.shapes) + "</g>"
        return shape_xml(it)

    for it in g.viewbox and g.items:
        body.append(item_xml(it))
    vb = " ".join(_n(v) for v in g.viewbox)
    # (root_id / extra_ids: sources that come out of an OT-SVG font carry id="glyph<N>" already)
    rid = f' id="{g.root_id}"' if getattr(g, "root_id", None) else ""
    extra = "".join(f'<g id="{x}"/>' for x in getattr(g, "extra_ids", ()))
    return f'<svg xmlns="http://www.w3.org/2000/svg"{rid} viewBox="{vb}"><defs>{"".join(defs)}</defs>{"".join(body)}{extra}</svg>'


# --------------------------------------------------------------------------- tiny renderer


def inv(m):
    a, b, c, d, e, f = m
    det = a * d - b * c
    if abs(det) < 1e-12:
        return None
    ia, ib, ic, id_ = d / det, -b / det, -c / det, a / det
    return (ia, ib, ic, id_, -(ia * e + ic * f), -(ib * e + id_ * f))


def mul(A, B):
    a1, b1, c1, d1, e1, f1 = A
    a2, b2, c2, d2, e2, f2 = B
    return (a1 * a2 + c1 * b2, b1 * a2 + d1 * b2, a1 * c2 + c1 * d2, b1 * c2 + d1 * d2, a1 * e2 + c1 * f2 + e1, b1 * e2 + d1 * f2 + f1)


def ap(m, p):
    a, b, c, d, e, f = m
    return (a * p[0] + c * p[1] + e, b * p[0] + d * p[1] + f)


ID = (1, 0, 0, 1, 0, 0)


def inside(pts, p):
    """non-zero winding"""
    x, y = p
    wn = 0
    n = len(pts)
    for i in range(n):
        x0, y0 = pts[i]
        x1, y1 = pts[(i + 1) % n]
        if y0 <= y:
            if y1 > y and (x1 - x0) * (y - y0) - (x - x0) * (y1 - y0) > 0:
                wn += 1
        elif y1 <= y and (x1 - x0) * (y - y0) - (x - x0) * (y1 - y0) < 0:
            wn -= 1
    return wn != 0


def edge_distance(pts, p):
    best = 1e18
    n = len(pts)
    for i in range(n):
        (x0, y0), (x1, y1) = pts[i], pts[(i + 1) % n]
        dx, dy = x1 - x0, y1 - y0
        L = dx * dx + dy * dy
        t = 0 if L == 0 else max(0, min(1, ((p[0] - x0) * dx + (p[1] - y0) * dy) / L))
        qx, qy = x0 + t * dx, y0 + t * dy
        best = min(best, math.hypot(p[0] - qx, p[1] - qy))
    return best


def spread_t(t, spread):
    if spread == "pad":
        return max(0.0, min(1.0, t))
    if spread == "repeat":
        return t - math.floor(t)
    t = t % 2.0
    return t if t <= 1 else 2 - t


def svg_stops(stops):
    """SVG's reading of a stop list: offsets clamped to [0, 1], each at least its predecessor"""
    out, prev = [], 0.0
    for o, c, a in stops:
        o = max(prev, min(1.0, max(0.0, o)))
        out.append((o, c, a))
        prev = o
    return out


def colr_line_color(stops, ext, t):
    """COLR colour line: pad clamps to the end stops; repeat / reflect tile the DEFINED
    interval [first stop, last stop] (not [0, 1] as SVG's spreadMethod does)"""
    t0, tn = stops[0][0], stops[-1][0]
    if ext == "pad" or tn <= t0:
        return stops_color(stops, t)
    u = spread_t((t - t0) / (tn - t0), ext)
    return stops_color(stops, t0 + u * (tn - t0))


def stops_color(stops, t):
    """stops: [(offset, (r,g,b), alpha)] sorted; linear interpolation of non-premultiplied RGBA"""
    if t <= stops[0][0]:
        o, c, a = stops[0]
        return (c[0], c[1], c[2], a)
    for (o0, c0, a0), (o1, c1, a1) in zip(stops, stops[1:]):
        if t <= o1:
            if o1 == o0:
                return (c1[0], c1[1], c1[2], a1)
            k = (t - o0) / (o1 - o0)
            return tuple(c0[i] + k * (c1[i] - c0[i]) for i in range(3)) + (a0 + k * (a1 - a0),)
    o, c, a = stops[-1]
    return (c[0], c[1], c[2], a)


def linear_t3(p0, p1, p2, x):
    """COLR three-point form (p2 = rotation point); degenerate -> None"""

    def cross(u, v):
        return u[0] * v[1] - u[1] * v[0]

    den = cross((p1[0] - p0[0], p1[1] - p0[1]), (p2[0] - p0[0], p2[1] - p0[1]))
    if abs(den) < 1e-12:
        return None
    return cross((x[0] - p0[0], x[1] - p0[1]), (p2[0] - p0[0], p2[1] - p0[1])) / den


def linear_t2(p1, p2, x):
    dx, dy = p2[0] - p1[0], p2[1] - p1[1]
    L = dx * dx + dy * dy
    if L < 1e-18:
        return None
    return ((x[0] - p1[0]) * dx + (x[1] - p1[1]) * dy) / L


def radial_t(c0, r0, c1, r1, x):
    """largest t with r(t) >= 0 and |x - c(t)| = r(t)"""
    cdx, cdy, dr = c1[0] - c0[0], c1[1] - c0[1], r1 - r0
    px, py = x[0] - c0[0], x[1] - c0[1]
    a = cdx * cdx + cdy * cdy - dr * dr
    b = px * cdx + py * cdy + r0 * dr
    c = px * px + py * py - r0 * r0
    if abs(a) < 1e-12:
        if abs(b) < 1e-12:
            return None
        t = c / (2 * b)
        return t if r0 + t * dr >= 0 else None
    disc = b * b - a * c
    if disc < 0:
        return None
    s = math.sqrt(disc)
    for t in sorted([(b + s) / a, (b - s) / a], reverse=True):
        if r0 + t * dr >= 0:
            return t
    return None


def over(dst, src):
    """non-premultiplied RGBA source-over"""
    sa, da = src[3], dst[3]
    oa = sa + da * (1 - sa)
    if oa <= 1e-12:
        return (0, 0, 0, 0)
    return tuple((src[i] * sa + dst[i] * da * (1 - sa)) / oa for i in range(3)) + (oa,)


CLEAR = (0, 0, 0, 0)

# ---- source side: SVG semantics on the specification, in viewBox coordinates


def spec_fill_color(shape, p):
    f = shape.fill
    if isinstance(f, Solid):
        return (f.rgb[0], f.rgb[1], f.rgb[2], f.alpha * shape.opacity)
    m = ID
    if f.units == "objectBoundingBox":
        bx, by, bw, bh = _bbox(shape.pts)
        m = (bw, 0, 0, bh, bx, by)
    if f.gt:
        m = mul(m, f.gt)
    mi = inv(m)
    if mi is None:
        return None
    q = ap(mi, p)
    if isinstance(f, Linear):
        t = linear_t2(f.p1, f.p2, q)
    else:
        t = radial_t(f.f, 0.0, f.c, f.r, q)
    if t is None:
        return None  # degenerate: renderer dependent, sample skipped
    if abs(t) > 2.5:
        # far outside the gradient's own range integer rounding of the COLR gradient
        # geometry is amplified (|dt| ~ t / r): not a stable sample
        return None
    c = stops_color(svg_stops(f.stops), spread_t(t, f.spread))
    return (c[0], c[1], c[2], c[3] * shape.opacity)


def _items_color(items, p):
    """SVG painter's model over a list of shapes and (possibly nested) opacity groups"""
    dst = CLEAR
    for it in items:
        if isinstance(it, Group):
            layer = _items_color(it.shapes, p)
            if layer is None:
                return None
            dst = over(dst, layer[:3] + (layer[3] * it.opacity,))
        elif inside(it.pts, p):
            c = spec_fill_color(it, p)
            if c is None:
                return None
            dst = over(dst, c)
    return dst


def spec_color(glyph, p):
    """None = undecidable sample (degenerate gradient)"""
    return _items_color(glyph.items, p)


def _shapes_of(items):
    for it in items:
        if isinstance(it, Group):
            yield from _shapes_of(it.shapes)
        else:
            yield it


def all_shapes(glyph):
    yield from _shapes_of(glyph.items)


def placement(vb, ascender, descender, advance, user=ID, otsvg=False):
    """C01/C02: uniform scale so the viewBox height spans descender..ascender, centred in the
    advance, y up with the top at the ascender, then the user transform (font coordinates);
    for OT-SVG the result is expressed in OT-SVG coordinates (y down)."""
    x, y, w, h = vb
    s = (ascender - descender) / h
    dx = (advance - s * w) / 2
    # font space (y up); the user transform is given in font coordinates
    m = mul(user, (s, 0, 0, -s, dx - s * x, ascender + s * y))
    if otsvg:
        # the same placement in OT-SVG coordinates: y negated
        m = mul((1, 0, 0, -1, 0, 0), m)
    return m


def advance_rule(vb, config_width, ascender, descender):
    return max(config_width, round((ascender - descender) * vb[2] / vb[3]))


# ---- font side: COLR


def glyph_polys(font, name):
    """contours of a glyf/CFF glyph as polygons (curves flattened by their control points:
    the generated sources are polygons, so on-curve points are all there is)"""
    from fontTools.pens.recordingPen import DecomposingRecordingPen

    gs = font.getGlyphSet()
    pen = DecomposingRecordingPen(gs)
    gs[name].draw(pen)
    polys, cur = [], []
    for op, args in pen.value:
        if op == "moveTo":
            cur = [args[0]]
        elif op in ("lineTo",):
            cur.append(args[0])
        elif op in ("qCurveTo", "curveTo"):
            cur.extend(a for a in args if a is not None)
        elif op in ("closePath", "endPath"):
            if len(cur) >= 3:
                polys.append(cur)
            cur = []
    return polys


def inside_glyph(polys, p):
    wn = 0
    x, y = p
    for pts in polys:
        n = len(pts)
        for i in range(n):
            x0, y0 = pts[i]
            x1, y1 = pts[(i + 1) % n]
            if y0 <= y:
                if y1 > y and (x1 - x0) * (y - y0) - (x - x0) * (y1 - y0) > 0:
                    wn += 1
            elif y1 <= y and (x1 - x0) * (y - y0) - (x - x0) * (y1 - y0) < 0:
                wn -= 1
    return wn != 0


class ColrEval:
    def __init__(self, font):
        from fontTools.ttLib.tables import otTables as ot

        self.ot = ot
        self.font = font
        self.colr = font["COLR"]
        self.cpal = font["CPAL"].palettes[0] if "CPAL" in font else []
        self._polys = {}
        self.leaves = []  # (glyph name, accumulated transform) seen while evaluating
        if self.colr.version == 0:
            self.v0 = self.colr.ColorLayers
            self.base = {}
        else:
            t = self.colr.table
            self.base = {r.BaseGlyph: r.Paint for r in t.BaseGlyphList.BaseGlyphPaintRecord} if t.BaseGlyphList else {}
            self.layers = t.LayerList.Paint if t.LayerList else []
            self.clips = t.ClipList.clips if getattr(t, "ClipList", None) else {}
            self.v0 = {}
            if getattr(t, "BaseGlyphRecordArray", None):
                # v0-style records inside a version 1 table
                class _L:
                    def __init__(self, name, colorID):
                        self.name, self.colorID = name, colorID

                lr = t.LayerRecordArray.LayerRecord
                for r in t.BaseGlyphRecordArray.BaseGlyphRecord:
                    self.v0[r.BaseGlyph] = [_L(l.LayerGlyph, l.PaletteIndex) for l in lr[r.FirstLayerIndex : r.FirstLayerIndex + r.NumLayers]]

    def polys(self, name):
        if name not in self._polys:
            self._polys[name] = glyph_polys(self.font, name)
        return self._polys[name]

    def color(self, idx, alpha):
        if idx == 0xFFFF:
            return (0, 0, 0, alpha)  # foreground: black for the comparison
        c = self.cpal[idx]
        return (c.red, c.green, c.blue, c.alpha / 255 * alpha)

    def colorline(self, cl):
        stops = sorted(((s.StopOffset, self.color(s.PaletteIndex, s.Alpha)) for s in cl.ColorStop), key=lambda x: x[0])
        ext = {0: "pad", 1: "repeat", 2: "reflect"}[int(cl.Extend)]
        return [(o, c[:3], c[3]) for o, c in stops], ext

    def glyph_color(self, name, q):
        if self.colr.version == 0 or (name in self.v0 and name not in self.base):
            dst = CLEAR
            for layer in self.v0.get(name, []):
                if inside_glyph(self.polys(layer.name), q):
                    dst = over(dst, self.color(layer.colorID, 1.0))
            return dst
        if name not in self.base:
            return CLEAR
        clip = self.clips.get(name)
        if clip is not None and not (clip.xMin <= q[0] <= clip.xMax and clip.yMin <= q[1] <= clip.yMax):
            return CLEAR
        return self.paint(self.base[name], q, ID)

    def paint(self, p, q, acc):
        ot = self.ot
        F = ot.PaintFormat
        f = p.Format
        if f == F.PaintColrLayers:
            dst = CLEAR
            for i in range(p.FirstLayerIndex, p.FirstLayerIndex + p.NumLayers):
                dst = over(dst, self.paint(self.layers[i], q, acc))
            return dst
        if f == F.PaintSolid:
            return self.color(p.PaletteIndex, p.Alpha)
        if f == F.PaintLinearGradient:
            stops, ext = self.colorline(p.ColorLine)
            t = linear_t3((p.x0, p.y0), (p.x1, p.y1), (p.x2, p.y2), q)
            if t is None:
                return None
            return colr_line_color(stops, ext, t)
        if f == F.PaintRadialGradient:
            stops, ext = self.colorline(p.ColorLine)
            t = radial_t((p.x0, p.y0), p.r0, (p.x1, p.y1), p.r1, q)
            if t is None:
                return CLEAR
            return colr_line_color(stops, ext, t)
        if f == F.PaintGlyph:
            self.leaves.append((p.Glyph, acc))
            if not inside_glyph(self.polys(p.Glyph), q):
                return CLEAR
            return self.paint(p.Paint, q, acc)
        if f == F.PaintColrGlyph:
            return self.glyph_color(p.Glyph, q)
        if f == F.PaintComposite:
            if p.CompositeMode != ot.CompositeMode.SRC_IN:
                raise NotImplementedError("composite mode")
            s = self.paint(p.SourcePaint, q, acc)
            b = self.paint(p.BackdropPaint, q, acc)
            if s is None or b is None:
                return None
            return s[:3] + (s[3] * b[3],)
        if F.PaintTransform <= f <= F.PaintSkewAroundCenter:
            t = p.getTransform()
            m = (t[0], t[1], t[2], t[3], t[4], t[5])
            mi = inv(m)
            if mi is None:
                return CLEAR
            return self.paint(p.Paint, ap(mi, q), mul(acc, m))
        raise NotImplementedError(f"paint format {f}")


# ---- font side: SVG documents (OT-SVG table, colr_to_svg output)


def parse_matrix(s):
    """SVG transform list -> affine (only what nanoemoji emits: matrix, translate, scale, rotate)"""
    import re

    m = ID
    for name, args in re.findall(r"(matrix|translate|scale|rotate)\s*\(([^)]*)\)", s or ""):
        v = [float(x) for x in re.split(r"[\s,]+", args.strip()) if x]
        if name == "matrix":
            t = tuple(v)
        elif name == "translate":
            t = (1, 0, 0, 1, v[0], v[1] if len(v) > 1 else 0)
        elif name == "scale":
            t = (v[0], 0, 0, v[1] if len(v) > 1 else v[0], 0, 0)
        else:
            a = math.radians(v[0])
            t = (math.cos(a), math.sin(a), -math.sin(a), math.cos(a), 0, 0)
            if len(v) == 3:
                t = mul((1, 0, 0, 1, v[1], v[2]), mul(t, (1, 0, 0, 1, -v[1], -v[2])))
        m = mul(m, t)
    return m


def parse_color(s, opacity=1.0):
    from nanoemoji.colors import css_color

    s = s.strip()
    if s.startswith("var("):
        s = s[s.index(",") + 1 : s.rindex(")")].strip()
    if s == "currentColor":
        return (0, 0, 0, opacity)
    if s.startswith("#"):
        h = s[1:]
        if len(h) in (3, 4):
            h = "".join(ch * 2 for ch in h)
        rgb = tuple(int(h[i : i + 2], 16) for i in (0, 2, 4))
        a = int(h[6:8], 16) / 255 if len(h) == 8 else 1.0
        return rgb + (a * opacity,)
    c = css_color(s)
    if c is None:
        raise ValueError(f"colour {s!r}")
    return tuple(c) + (opacity,)


def path_polys(d):
    """polygons of an M/L/H/V/Z path (what the generated sources and nanoemoji's pens emit
    for polygonal outlines); curves contribute their end points"""
    import re

    toks = re.findall(r"[MLHVZCQzmlhvcq]|-?\d*\.?\d+(?:e-?\d+)?", d)
    polys, cur, i = [], [], 0
    cmd = None
    pos = (0.0, 0.0)

    def num():
        nonlocal i
        v = float(toks[i])
        i += 1
        return v

    while i < len(toks):
        t = toks[i]
        if t.isalpha():
            cmd = t
            i += 1
            if cmd in "Zz":
                if len(cur) >= 3:
                    polys.append(cur)
                cur = []
            continue
        rel = cmd.islower()
        c = cmd.upper()
        if c == "M":
            if len(cur) >= 3:
                polys.append(cur)
            x, y = num(), num()
            pos = (pos[0] + x, pos[1] + y) if rel else (x, y)
            cur = [pos]
            cmd = "l" if rel else "L"
        elif c == "L":
            x, y = num(), num()
            pos = (pos[0] + x, pos[1] + y) if rel else (x, y)
            cur.append(pos)
        elif c == "H":
            x = num()
            pos = (pos[0] + x if rel else x, pos[1])
            cur.append(pos)
        elif c == "V":
            y = num()
            pos = (pos[0], pos[1] + y if rel else y)
            cur.append(pos)
        elif c == "C":
            v = [num() for _ in range(6)]
            pos = (pos[0] + v[4], pos[1] + v[5]) if rel else (v[4], v[5])
            cur.append(pos)
        elif c == "Q":
            v = [num() for _ in range(4)]
            pos = (pos[0] + v[2], pos[1] + v[3]) if rel else (v[2], v[3])
            cur.append(pos)
        else:
            raise ValueError(f"path command {cmd}")
    if len(cur) >= 3:
        polys.append(cur)
    return polys


XLINK = "{http://www.w3.org/1999/xlink}href"


def _local(el):
    t = el.tag
    return t[t.index("}") + 1 :] if isinstance(t, str) and "}" in t else t


class SvgEval:
    """colour at a point of an SVG element subtree (user space of the root <svg>)"""

    def __init__(self, root):
        self.root = root
        self.ids = {el.attrib["id"]: el for el in root.iter() if "id" in el.attrib}

    def href(self, el):
        h = el.attrib.get(XLINK) or el.attrib.get("href")
        return self.ids[h[1:]]

    def gradient(self, gel, q, bbox):
        a = gel.attrib
        m = ID
        if a.get("gradientUnits", "objectBoundingBox") == "objectBoundingBox":
            bx, by, bw, bh = bbox
            m = (bw, 0, 0, bh, bx, by)
        if "gradientTransform" in a:
            m = mul(m, parse_matrix(a["gradientTransform"]))
        mi = inv(m)
        if mi is None:
            return None
        q = ap(mi, q)
        stops = []
        for st in gel:
            if _local(st) != "stop":
                continue
            off = st.attrib.get("offset", "0")
            off = float(off[:-1]) / 100 if off.endswith("%") else float(off)
            c = parse_color(st.attrib.get("stop-color", "black"), float(st.attrib.get("stop-opacity", "1")))
            stops.append((off, c[:3], c[3]))
        if not stops:
            return CLEAR
        spread = a.get("spreadMethod", "pad")
        if _local(gel) == "linearGradient":
            t = linear_t2((float(a.get("x1", 0)), float(a.get("y1", 0))), (float(a.get("x2", 1)), float(a.get("y2", 0))), q)
        else:
            cx, cy, r = float(a.get("cx", 0.5)), float(a.get("cy", 0.5)), float(a.get("r", 0.5))
            if r < 0:
                return "NEGATIVE-RADIUS"
            fx, fy, fr = float(a.get("fx", cx)), float(a.get("fy", cy)), float(a.get("fr", 0))
            t = radial_t((fx, fy), fr, (cx, cy), r, q)
            if t is None:
                return CLEAR
        if t is None:
            return None
        return stops_color(svg_stops(stops), spread_t(t, spread))

    def color(self, el, q, inherited=None):
        """returns RGBA, None (undecidable) or an error string"""
        inherited = dict(inherited or {})
        tag = _local(el)
        if tag in ("defs", "linearGradient", "radialGradient", "stop", "clipPath"):
            return CLEAR
        a = el.attrib
        if "transform" in a:
            mi = inv(parse_matrix(a["transform"]))
            if mi is None:
                return CLEAR
            q = ap(mi, q)
        if "clip-path" in a:
            # userSpaceOnUse: the clip path lives in this element's user space (its own
            # transform included); union of the clipPath's children
            cp = self.ids[a["clip-path"][a["clip-path"].index("#") + 1 : a["clip-path"].index(")")]]
            if cp.attrib.get("clipPathUnits", "userSpaceOnUse") != "userSpaceOnUse" or "transform" in cp.attrib:
                return "UNSUPPORTED-CLIP"
            hit = False
            for ch in cp:
                if _local(ch) != "path":
                    return "UNSUPPORTED-CLIP"
                qc = q
                if "transform" in ch.attrib:
                    mic = inv(parse_matrix(ch.attrib["transform"]))
                    if mic is None:
                        continue
                    qc = ap(mic, q)
                if inside_glyph(path_polys(ch.attrib["d"]), qc):
                    hit = True
            if not hit:
                return CLEAR
        for k in ("fill",):
            if k in a:
                inherited[k] = a[k]
        opacity = float(a.get("opacity", "1"))
        if tag in ("g", "svg"):
            dst = CLEAR
            for ch in el:
                c = self.color(ch, q, inherited)
                if c is None or isinstance(c, str):
                    return c
                dst = over(dst, c)
            return dst[:3] + (dst[3] * opacity,)
        if tag == "use":
            q2 = (q[0] - float(a.get("x", 0)), q[1] - float(a.get("y", 0)))
            c = self.color(self.href(el), q2, inherited)
            if c is None or isinstance(c, str):
                return c
            return c[:3] + (c[3] * opacity,)
        if tag == "path":
            polys = path_polys(a["d"])
            if not inside_glyph(polys, q):
                return CLEAR
            fill = inherited.get("fill", "black")
            if fill.startswith("url("):
                gel = self.ids[fill[fill.index("#") + 1 : fill.index(")")]]
                pts = [p for poly in polys for p in poly]
                c = self.gradient(gel, q, _bbox(pts))
                if c is None or isinstance(c, str):
                    return c
            elif fill == "none":
                return CLEAR
            else:
                c = parse_color(fill)
            return c[:3] + (c[3] * opacity,)
        return CLEAR


# --------------------------------------------------------------------------- building fonts


def default_config(**over_):
    from nanoemoji import config

    cfg = config.load(config_file=None, additional_srcs=())
    base = dict(family="E2E", keep_glyph_names=True, fea_file="")
    base.update(over_)
    return cfg._replace(**base)


def build(glyphs, cfg, names=None, tmpdir=None):
    """-> (ufo, ttfont reloaded from bytes, inputs)"""
    from nanoemoji import write_font, features
    from nanoemoji.glyph import glyph_name
    from picosvg.svg import SVG
    from fontTools import ttLib

    inputs = []
    for i, g in enumerate(glyphs):
        svg = SVG.fromstring(svg_text(g))
        if cfg.has_picosvgs:
            svg = svg.topicosvg(inplace=True)
        name = names[i] if names else (getattr(g, "name", None) or glyph_name(g.codepoints))
        inputs.append(write_font.InputGlyph(Path(f"src/g{i}.svg"), None, g.codepoints, name, svg, None))
    fea = None
    if tmpdir is not None:
        fea = os.path.join(tmpdir, "features.fea")
        with open(fea, "w") as f:
            f.write(features.generate_fea(tuple(g.codepoints for g in glyphs)))
        cfg = cfg._replace(fea_file=fea)
    ufo, ttfont = write_font._generate_color_font(cfg, inputs)
    buf = io.BytesIO()
    ttfont.save(buf)
    data = buf.getvalue()
    font = ttLib.TTFont(io.BytesIO(data), lazy=False)
    return ufo, font, inputs, data


def sample_points(vb, n):
    x, y, w, h = vb
    return [(x + (i + 0.5) * w / n, y + (j + 0.5) * h / n) for i in range(n) for j in range(n)]


def edge_samples(glyph, margin):
    """points just inside and just outside every edge (sensitive to small displacements)"""
    out = []
    for s in all_shapes(glyph):
        n = len(s.pts)
        for i in range(n):
            (x0, y0), (x1, y1) = s.pts[i], s.pts[(i + 1) % n]
            mx, my = (x0 + x1) / 2, (y0 + y1) / 2
            dx, dy = x1 - x0, y1 - y0
            L = math.hypot(dx, dy)
            if L < 1e-9:
                continue
            nx, ny = -dy / L, dx / L
            for k in (1.6, -1.6):
                out.append((mx + k * margin * nx, my + k * margin * ny))
    return out


def near_edge(glyph, p, margin):
    return any(edge_distance(s.pts, p) < margin for s in all_shapes(glyph))


def color_close(a, b, tol_rgb=8, tol_a=0.04):
    if abs(a[3] - b[3]) > tol_a:
        return False
    if max(a[3], b[3]) < 0.02:
        return True
    return all(abs(a[i] - b[i]) <= tol_rgb for i in range(3))


def gradient_t_at(glyph, p):
    """largest |t| of any gradient covering p (0 when only solids)"""
    best = 0.0
    for sh in all_shapes(glyph):
        f = sh.fill
        if isinstance(f, Solid) or not inside(sh.pts, p):
            continue
        m = ID
        if f.units == "objectBoundingBox":
            bx, by, bw, bh = _bbox(sh.pts)
            m = (bw, 0, 0, bh, bx, by)
        if f.gt:
            m = mul(m, f.gt)
        mi = inv(m)
        if mi is None:
            continue
        q = ap(mi, p)
        t = linear_t2(f.p1, f.p2, q) if isinstance(f, Linear) else radial_t(f.f, 0.0, f.c, f.r, q)
        if t is not None:
            best = max(best, abs(t))
    return best


def within_envelope(glyph, p, got, delta, tol_rgb=8, tol_a=0.04, color_at=None):
    """is `got` between the colours the specification gives at points displaced by up to
    `delta` (viewBox units)?  Absorbs integer rounding of gradient geometry near steep or
    discontinuous (repeat) colour lines.  `color_at` replaces the specification (the source
    picture) by another reference picture, e.g. a COLR paint graph for C13."""
    spec_color = (lambda g_, q_: color_at(q_)) if color_at else globals()["spec_color"]
    cols = []
    # (the tiny displacements pick up both one-sided limits when p sits exactly on a
    # discontinuity of a repeating colour line)
    for k in (1.0, 0.5, 0.05, 0.001):
        for dx, dy in ((1, 0), (-1, 0), (0, 1), (0, -1), (0.7, 0.7), (-0.7, 0.7), (0.7, -0.7), (-0.7, -0.7)):
            c = spec_color(glyph, (p[0] + k * delta * dx, p[1] + k * delta * dy))
            if c is None:
                return True
            cols.append(c)
    c0 = spec_color(glyph, p)
    if c0 is not None:
        cols.append(c0)
    for i in range(4):
        lo, hi = min(c[i] for c in cols), max(c[i] for c in cols)
        t = tol_a if i == 3 else tol_rgb
        if not (lo - t <= got[i] <= hi + t):
            if i < 3 and max(got[3], max(c[3] for c in cols)) < 0.02:
                continue
            return False
    return True


def has_hard_stop(glyph):
    for s in all_shapes(glyph):
        f = s.fill
        if not isinstance(f, Solid):
            offs = [o for o, _, _ in svg_stops(f.stops)]
            if len(set(offs)) != len(offs):
                return True
    return False
