"""native helpers: the driver's build graph for several configurations in one invocation"""
import json
import os
import re
import subprocess
import sys
import tempfile
from pathlib import Path

_SVG = '<svg xmlns="http://www.w3.org/2000/svg" viewBox="0 0 100 100"><path d="M10,10 L90,10 L90,{h} L10,{h} Z" fill="#{c}"/></svg>'

_DEFAULTS = dict(color_format="glyf_colr_1", bitmap_resolution=128, clip_to_viewbox=True, reuse_tolerance=0.1, ascender=950, descender=-250, use_pngquant=True, use_zopflipng=True, pngquant_flags="--speed 1 --skip-if-larger --quality 85-95")


def _cfg(name, srcs, **kw):
    d = dict(_DEFAULTS)
    d.update(kw)
    d["output_file"] = name
    d["srcs"] = list(srcs)
    return d


def _toml(c):
    lines = [
        f'output_file = "{c["output_file"]}"',
        f'color_format = "{c["color_format"]}"',
        f'bitmap_resolution = {c["bitmap_resolution"]}',
        f'clip_to_viewbox = {str(c["clip_to_viewbox"]).lower()}',
        f'reuse_tolerance = {c["reuse_tolerance"]}',
        f'ascender = {c["ascender"]}',
        f'descender = {c["descender"]}',
        f'use_pngquant = {str(c["use_pngquant"]).lower()}',
        f'use_zopflipng = {str(c["use_zopflipng"]).lower()}',
        f'pngquant_flags = "{c["pngquant_flags"]}"',
        "[axis.wght]",
        'name = "Weight"',
        "default = 400",
        "[master.regular]",
        'style_name = "Regular"',
        "srcs = [" + ", ".join(f'"{s}"' for s in c["srcs"]) + "]",
        "[master.regular.position]",
        "wght = 400",
    ]
    return "\n".join(lines) + "\n"


def _bitmap(c):
    return c["color_format"] in ("cbdt", "sbix")


def _pico(c):
    return not _bitmap(c) and not c["color_format"].startswith("untouched")


def known_class(a, b):
    """witness classes of the recorded findings (excluded from generation)"""
    shared = set(a["srcs"]) & set(b["srcs"])
    out = []
    if Path(a["output_file"]).stem == Path(b["output_file"]).stem:
        out.append("F10")
    if _bitmap(a) and _bitmap(b) and shared and (a["bitmap_resolution"], a["pngquant_flags"], a["use_pngquant"], a["use_zopflipng"]) != (b["bitmap_resolution"], b["pngquant_flags"], b["use_pngquant"], b["use_zopflipng"]):
        out.append("F4")
    if _pico(a) and _pico(b) and (a["reuse_tolerance"], a["ascender"] - a["descender"]) != (b["reuse_tolerance"], b["ascender"] - b["descender"]):
        out.append("F8")
    return out


def gen_pair(rng):
    while True:
        srcs_a = rng.choice([["s/a.svg", "s/b.svg"], ["s/a.svg"]])
        srcs_b = rng.choice([["s/a.svg", "s/b.svg"], ["s/b.svg", "s/c.svg"], ["s/c.svg"], ["t/a.svg"]])
        fa = rng.choice(["glyf_colr_1", "glyf_colr_0", "picosvg", "cbdt", "sbix", "untouchedsvg", "glyf"])
        fb = rng.choice(["glyf_colr_1", "picosvg", "cbdt", "sbix", "glyf"])
        a = _cfg("A.ttf", srcs_a, color_format=fa, clip_to_viewbox=rng.random() < 0.5, bitmap_resolution=rng.choice([128, 64]), use_pngquant=rng.random() < 0.7, use_zopflipng=rng.random() < 0.5)
        b = _cfg(rng.choice(["B.ttf", "B.ttf", "sub.ttf"]), srcs_b, color_format=fb, clip_to_viewbox=rng.random() < 0.5, bitmap_resolution=rng.choice([128, 64]), use_pngquant=rng.random() < 0.7, use_zopflipng=rng.random() < 0.5, reuse_tolerance=rng.choice([0.1, 0.1, 0.5]), ascender=rng.choice([950, 950, 800]))
        if known_class(a, b):
            continue
        return {"a": a, "b": b}


def witness(fid):
    if fid == "F4":
        return {"a": _cfg("A.ttf", ["s/a.svg"], color_format="cbdt", bitmap_resolution=128), "b": _cfg("B.ttf", ["s/a.svg"], color_format="cbdt", bitmap_resolution=64)}
    if fid == "F8":
        return {"a": _cfg("A.ttf", ["s/a.svg"], reuse_tolerance=0.1), "b": _cfg("B.ttf", ["s/b.svg"], reuse_tolerance=0.5)}
    if fid == "F10":
        return {"a": _cfg("Font.ttf", ["s/a.svg"]), "b": _cfg("Font.otf", ["s/a.svg"], color_format="cff_colr_1")}
    raise KeyError(fid)


def parse_ninja(text):
    edges, dups = {}, []
    cur = None
    text = re.sub(r"\$\n\s*", "", text)  # ninja line continuations
    for line in text.splitlines():
        m = re.match(r"^build (.+?): (\S+)(.*)$", line)
        if m:
            outs = _split(m.group(1))
            rest = m.group(3)
            explicit, _, implicit = rest.partition(" | ")
            e = {"rule": m.group(2), "inputs": _split(explicit), "implicit": _split(implicit), "vars": {}}
            for o in outs:
                if o in edges:
                    dups.append(o)
                edges[o] = e
            cur = e
        elif cur is not None and line.startswith("  ") and "=" in line:
            k, _, v = line.strip().partition(" = ")
            cur["vars"][k] = v
        elif not line.startswith(" "):
            cur = None
    return edges, dups


def _split(s):
    return [x.replace("$ ", " ").replace("$:", ":") for x in re.split(r"(?<!\$) ", s.strip()) if x]


def run_driver(a, b):
    repo_src = next((p for p in sys.path if p.endswith("/src") and os.path.isdir(os.path.join(p, "nanoemoji"))), "/repo/src")
    with tempfile.TemporaryDirectory(prefix="verif_bg_") as d:
        for sub in ("s", "t"):
            os.makedirs(os.path.join(d, sub))
        for i, fn in enumerate(["s/a.svg", "s/b.svg", "s/c.svg", "t/a.svg"]):
            open(os.path.join(d, fn), "w").write(_SVG.format(h=40 + 10 * i, c="%06X" % (0x112233 * (i + 1))))
        for nm, c in (("a.toml", a), ("b.toml", b)):
            open(os.path.join(d, nm), "w").write(_toml(c))
        env = dict(os.environ, PYTHONPATH=repo_src, PATH="/venv/bin:" + os.environ.get("PATH", ""))
        r = subprocess.run([sys.executable, "-m", "nanoemoji.nanoemoji", "--noexec_ninja", "a.toml", "b.toml"], cwd=d, env=env, capture_output=True, text=True, timeout=300)
        out = {"exit": r.returncode, "stderr": r.stderr[-1500:]}
        bn = os.path.join(d, "build", "build.ninja")
        if r.returncode == 0 and os.path.exists(bn):
            edges, dups = parse_ninja(open(bn).read())
            out["edges"] = edges
            out["dups"] = dups
            out["tomls"] = {}
            for c in (a, b):
                p = os.path.join(d, "build", Path(c["output_file"]).with_suffix(".toml").name)
                out["tomls"][c["output_file"]] = open(p).read() if os.path.exists(p) else None
            out["root"] = d
        return out


def graph_problems(a, b, result):
    """the four clauses of DESIGN.md section 4 C20 for each configuration"""
    if result["exit"] != 0:
        return [("driver failed", result["stderr"][-300:])]
    import toml

    edges = result["edges"]
    bad = []
    if result["dups"]:
        bad.append(("unique", "two edges for", sorted(set(result["dups"]))))
    for c in (a, b):
        name = c["output_file"]
        stem = Path(name).stem
        fe = edges.get(name)
        if fe is None:
            bad.append((name, "no font edge"))
            continue
        gm = edges.get(fe["vars"].get("glyphmap_file"))
        if gm is None:
            bad.append((name, "exists", "glyphmap edge missing"))
            continue
        # the per-config TOML is this configuration's
        t = result["tomls"].get(name)
        if t is None:
            bad.append((name, "config file missing"))
        else:
            tc = toml.loads(t)
            for k in ("color_format", "bitmap_resolution", "clip_to_viewbox", "reuse_tolerance", "ascender", "descender"):
                if tc.get(k) != c[k]:
                    bad.append((name, "own variables", f"{stem}.toml has {k}={tc.get(k)!r}, configuration says {c[k]!r}"))
        for f in gm["inputs"]:
            e = edges.get(f)
            if e is None:
                if not (f.startswith("..") or os.path.isabs(f)):
                    bad.append((name, "exists", f"{f} is read but no edge produces it"))
                continue
            # own variables along the chain that produces f
            chain = []
            cur = f
            while cur in edges and len(chain) < 5:
                chain.append(edges[cur])
                ins = edges[cur]["inputs"]
                cur = ins[0] if ins else None
            for e2 in chain:
                if e2["rule"] == "write_bitmap" and str(e2["vars"].get("res")) != str(c["bitmap_resolution"]):
                    bad.append((name, "own variables", f"bitmap for {f} rendered at res {e2['vars'].get('res')}, configuration says {c['bitmap_resolution']}"))
                if e2["rule"] == "pngquant" and e2["vars"].get("pngquant_flags") != c["pngquant_flags"]:
                    bad.append((name, "own variables", "pngquant_flags"))
                if e2["rule"].startswith("picosvg_") and (e2["rule"] == "picosvg_clipped") != c["clip_to_viewbox"]:
                    bad.append((name, "own variables", f"{f} built by {e2['rule']}, configuration says clip_to_viewbox={c['clip_to_viewbox']}"))
            if _bitmap(c):
                rules = [e2["rule"] for e2 in chain]
                want = (["zopflipng"] if c["use_zopflipng"] else []) + (["pngquant"] if c["use_pngquant"] else []) + ["write_bitmap"]
                if rules != want:
                    bad.append((name, "own variables", f"compression chain {rules}, configuration asks for {want}"))
            if _pico(c):
                pe = edges.get(f.replace(".svg", ".parts.json"))
                if pe is None:
                    bad.append((name, "exists", f"no part file edge for {f}"))
                elif (str(pe["vars"].get("reuse_tolerance")), str(pe["vars"].get("wh"))) != (str(c["reuse_tolerance"]), str(c["ascender"] - c["descender"])):
                    bad.append((name, "own variables", f"part file of {f}: tolerance/wh {pe['vars']}"))
    # every file a step is told to read (its *_file variables) is a declared input of the
    # edge: otherwise a re-run with changed options leaves the font of the previous options
    seen = set()
    for out_name, e in edges.items():
        if id(e) in seen:
            continue
        seen.add(id(e))
        declared = set(e["inputs"]) | set(e["implicit"])
        for k, v in e["vars"].items():
            if k.endswith("_file") and v not in declared:
                bad.append((out_name, "declared inputs", f"{k} = {v} is read by the step but is not an input of the edge"))
    merged = edges.get("parts-merged.json")
    if merged is not None:
        kinds = {(edges[p]["vars"].get("reuse_tolerance"), edges[p]["vars"].get("wh")) for p in merged["inputs"] if p in edges}
        if len(kinds) > 1:
            bad.append(("combined precondition", "part files feeding parts-merged.json disagree on tolerance / em height (write_combined_part_files asserts they agree)", sorted(map(str, kinds))))
    return bad


# ---- several configurations whose sources share a file name (different directories)


def gen_same_basename(rng, i=None):
    i = rng.randrange(6) if i is None else i
    n = [3, 4, 3, 2, 4, 3][i % 6]
    fmts = ["glyf_colr_1", "picosvg", "glyf", "glyf_colr_0", "untouchedsvg"]
    dirs = ["s", "t", "u", "v"][:n]
    cfgs = []
    for k, dname in enumerate(dirs):
        srcs = [f"{dname}/a.svg"] + ([f"{dname}/b.svg"] if rng.random() < 0.4 else [])
        # (picosvg-based configurations agree on tolerance / em height: finding F8 is not the subject)
        cfgs.append(_cfg(f"F{k}.ttf", srcs, color_format=rng.choice(fmts), clip_to_viewbox=rng.random() < 0.6))
    return {"cfgs": cfgs}


def run_driver_n(cfgs):
    repo_src = next((p for p in sys.path if p.endswith("/src") and os.path.isdir(os.path.join(p, "nanoemoji"))), "/repo/src")
    with tempfile.TemporaryDirectory(prefix="verif_bg_") as d:
        k = 0
        for c in cfgs:
            for fn in c["srcs"]:
                os.makedirs(os.path.dirname(os.path.join(d, fn)), exist_ok=True)
                k += 1
                open(os.path.join(d, fn), "w").write(_SVG.format(h=30 + 7 * k, c="%06X" % (0x0A1B2C * k)))
        names = []
        for j, c in enumerate(cfgs):
            names.append(f"c{j}.toml")
            open(os.path.join(d, names[-1]), "w").write(_toml(c))
        env = dict(os.environ, PYTHONPATH=repo_src, PATH="/venv/bin:" + os.environ.get("PATH", ""))
        r = subprocess.run([sys.executable, "-m", "nanoemoji.nanoemoji", "--noexec_ninja"] + names, cwd=d, env=env, capture_output=True, text=True, timeout=300)
        out = {"exit": r.returncode, "stderr": r.stderr[-1500:]}
        bn = os.path.join(d, "build", "build.ninja")
        if r.returncode == 0 and os.path.exists(bn):
            out["edges"], out["dups"] = parse_ninja(open(bn).read())
        return out


def own_source_problems(cfgs, result):
    """every file a configuration's glyph map step reads is derived from one of that
    configuration's OWN sources (followed back through the intermediate edges), each source
    is read, and two different sources never share an intermediate"""
    if result["exit"] != 0:
        return [("driver failed", result["stderr"][-300:])]
    edges = result["edges"]
    bad = []
    if result["dups"]:
        bad.append(("unique", "two edges for", sorted(set(result["dups"]))))
    origin = {}
    for c in cfgs:
        name = c["output_file"]
        fe = edges.get(name)
        gm = edges.get(fe["vars"].get("glyphmap_file")) if fe else None
        if gm is None:
            bad.append((name, "no font / glyph map edge"))
            continue
        roots = []
        for f in gm["inputs"]:
            cur, hops = f, 0
            while cur in edges and hops < 6:
                ins = edges[cur]["inputs"]
                cur = ins[0] if ins else None
                hops += 1
            if cur is None:
                bad.append((name, f"{f} has no source"))
                continue
            root = os.path.normpath(os.path.join("build", cur))
            roots.append(root)
            if origin.setdefault(f, root) != root:
                bad.append((name, f"{f} stands for two sources", origin[f], root))
        if sorted(roots) != sorted(os.path.normpath(s_) for s_ in c["srcs"]):
            bad.append((name, "glyph map is built from", sorted(roots), "configuration lists", sorted(c["srcs"])))
    return bad


# ---- the CLI's own bitmap step: bitmap_resolution is the pixel HEIGHT of what it renders


def gen_cli_bitmaps(rng, i=None):
    i = rng.randrange(4) if i is None else i
    return {
        "fmt": ["sbix", "cbdt", "sbix", "cbdt"][i % 4],
        "viewbox": [(0, 0, 150, 100), (0, 0, 100, 100), (0, 0, 60, 120), (0, 0, 180, 100)][i % 4],
        "res": rng.choice([64, 96, 72]) if i % 4 != 3 else 64,
        "by_flag": i % 2 == 0,
    }


def run_cli_bitmaps(fmt, viewbox, res, by_flag):
    import io

    from fontTools import ttLib
    from PIL import Image

    repo_src = next((p for p in sys.path if p.endswith("/src") and os.path.isdir(os.path.join(p, "nanoemoji"))), "/repo/src")
    with tempfile.TemporaryDirectory(prefix="verif_cli_") as d:
        x, y, w, h = viewbox
        svg = f'<svg xmlns="http://www.w3.org/2000/svg" viewBox="{x} {y} {w} {h}"><rect x="{x + w * 0.1}" y="{y + h * 0.1}" width="{w * 0.8}" height="{h * 0.8}" fill="#C02040"/></svg>'
        open(os.path.join(d, "emoji_u1f600.svg"), "w").write(svg)
        cmd = [sys.executable, "-m", "nanoemoji.nanoemoji", "--color_format", fmt, "--build_dir", os.path.join(d, "build")]
        if by_flag:
            cmd += ["--bitmap_resolution", str(res), "emoji_u1f600.svg"]
        else:
            open(os.path.join(d, "c.toml"), "w").write(f'bitmap_resolution = {res}\ncolor_format = "{fmt}"\n[axis.wght]\nname = "Weight"\ndefault = 400\n[master.regular]\nstyle_name = "Regular"\nsrcs = ["emoji_u1f600.svg"]\n[master.regular.position]\nwght = 400\n')
            cmd += ["c.toml"]
        env = dict(os.environ, PYTHONPATH=repo_src, PATH="/venv/bin:" + os.environ.get("PATH", ""))
        r = subprocess.run(cmd, cwd=d, env=env, capture_output=True, text=True, timeout=600)
        out = {"exit": r.returncode, "stderr": (r.stdout + r.stderr)[-800:], "png_sizes": [], "ppems": []}
        fonts = [f for f in os.listdir(os.path.join(d, "build")) if f.endswith(".ttf")] if os.path.isdir(os.path.join(d, "build")) else []
        if r.returncode == 0 and fonts:
            font = ttLib.TTFont(os.path.join(d, "build", fonts[0]))
            out["upem"] = font["head"].unitsPerEm
            out["em"] = font["hhea"].ascent - font["hhea"].descent
            if "sbix" in font:
                for ppem, strike in font["sbix"].strikes.items():
                    out["ppems"].append(ppem)
                    for g in strike.glyphs.values():
                        if g.imageData:
                            out["png_sizes"].append(Image.open(io.BytesIO(g.imageData)).size)
            if "CBDT" in font:
                for st, data in zip(font["CBLC"].strikes, font["CBDT"].strikeData):
                    out["ppems"].append(st.bitmapSizeTable.ppemY)
                    for bm in data.values():
                        out["png_sizes"].append(Image.open(io.BytesIO(bm.imageData)).size)
        return out


def cli_bitmap_problems(fmt, viewbox, res, by_flag, result):
    if result["exit"] != 0:
        # a bitmap too wide for CBDT's 8-bit metrics is rejected (C14 allows that)
        if fmt == "cbdt" and "too big for CBDT" in result["stderr"]:
            return []
        return [("CLI failed", result["stderr"][-300:])]
    bad = []
    if not result["png_sizes"]:
        bad.append("no bitmaps in the font")
    for w, h in result["png_sizes"]:
        if h != res:
            bad.append(("bitmap height is not bitmap_resolution", (w, h), res))
        if abs(w - res * viewbox[2] / viewbox[3]) > 1:
            bad.append(("bitmap width does not follow the viewBox aspect", (w, h)))
    want = round(result["upem"] * res / result["em"])
    if any(p != want for p in result["ppems"]):
        bad.append(("strike ppem", result["ppems"], want))
    return bad


# ---- variable builds go through write_variable_font: keep_glyph_names must reach post there too


def gen_vf(rng, i=None):
    i = rng.randrange(4) if i is None else i
    return {"keep_names": i % 2 == 1, "otf": i % 4 >= 2}


def run_vf(keep_names, otf=False):
    from fontTools import ttLib

    repo_src = next((p for p in sys.path if p.endswith("/src") and os.path.isdir(os.path.join(p, "nanoemoji"))), "/repo/src")
    with tempfile.TemporaryDirectory(prefix="verif_vf_") as d:
        for name, (x, w) in (("thin", (30, 20)), ("bold", (20, 45))):
            os.makedirs(os.path.join(d, name))
            open(os.path.join(d, name, "emoji_u1f600.svg"), "w").write(
                f'<svg xmlns="http://www.w3.org/2000/svg" viewBox="0 0 100 100"><rect x="{x}" y="20" width="{w}" height="50" fill="#C02040"/></svg>'
            )
        open(os.path.join(d, "c.toml"), "w").write(
            ('output_file = "VF.otf"\ncolor_format = "cff2_colr_1"\n' if otf else 'output_file = "VF.ttf"\ncolor_format = "glyf_colr_1"\n')
            + ("keep_glyph_names = true\n" if keep_names else "")
            + '[axis.wght]\nname = "Weight"\ndefault = 400\n[master.thin]\nstyle_name = "Thin"\nsrcs = ["thin/*.svg"]\n[master.thin.position]\nwght = 400\n'
            + '[master.bold]\nstyle_name = "Bold"\nsrcs = ["bold/*.svg"]\n[master.bold.position]\nwght = 700\n'
        )
        env = dict(os.environ, PYTHONPATH=repo_src, PATH="/venv/bin:" + os.environ.get("PATH", ""))
        r = subprocess.run([sys.executable, "-m", "nanoemoji.nanoemoji", "--build_dir", os.path.join(d, "build"), "c.toml"], cwd=d, env=env, capture_output=True, text=True, timeout=900)
        out = {"exit": r.returncode, "stderr": (r.stdout + r.stderr)[-600:]}
        p = os.path.join(d, "build", "VF.otf" if otf else "VF.ttf")
        if r.returncode == 0 and os.path.exists(p):
            f = ttLib.TTFont(p)
            out["post"] = f["post"].formatType
            out["outlines"] = sorted(t for t in ("glyf", "CFF ", "CFF2") if t in f)
            out["has_fvar"] = "fvar" in f
            out["cmap"] = sorted(f.getBestCmap())
    return out
