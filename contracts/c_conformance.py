"""Native conformance checks (bounded tier) of summaries that the proved tier assumes about
string-level helpers: the text they produce denotes the value they were given."""
from vlib import *


def _gen_affine(rng):
    import math

    k = rng.randrange(6)
    e, f = rng.choice([0, 0, 12.3456, -250, 1000.0005]), rng.choice([0, -7.25, 950, 0.00049])
    if k == 0:
        m = (1, 0, 0, 1, 0, 0)
    elif k == 1:
        m = (1, 0, 0, 1, e, f)
    elif k == 2:
        s = rng.choice([0.5, 2, 12, 0.0833333, 1.00049])
        m = (s, 0, 0, rng.choice([s, -s, 0.333333]), e, f)
    elif k == 3:
        t = math.radians(rng.choice([30, 45, 90, 123.4]))
        m = (math.cos(t), math.sin(t), -math.sin(t), math.cos(t), e, f)
    else:
        m = tuple(round(rng.uniform(-3, 3), rng.choice([1, 3, 6])) for _ in range(4)) + (e, f)
    return {"m": m}


def _svg_matrix_of(m):
    from nanoemoji import svg
    from picosvg.svg_transform import Affine2D

    return svg._svg_matrix(Affine2D(*m))


def _parse_transform(text):
    from picosvg.svg_transform import Affine2D

    return tuple(Affine2D.fromstring(text))


@contract("nanoemoji.svg._svg_matrix", props=["C02", "C13"])
class svg_matrix_conformance:
    bounded_only = True
    gen = _gen_affine
    native_call = _svg_matrix_of
    n_quick = 200
    n_thorough = 5000
    ensures = {
        # the text is an SVG transform denoting the affine rounded to 3 decimals
        "denotes-the-affine-to-3-decimals": lambda m, result: all(abs(u - v) <= 0.00051 for u, v in zip(_parse_transform(result), m)),
    }


def _gen_number(rng):
    return {"n": rng.choice([0, 1, -1, 0.5, 12.3456, -0.0004, 0.0005, 1e-7, 123456.789, rng.uniform(-1000, 1000), rng.uniform(-1, 1)])}


def _ntos_of(n):
    from nanoemoji import svg

    return svg._ntos(n)


@contract("nanoemoji.svg._ntos", props=["C02"])
class ntos_conformance:
    bounded_only = True
    gen = _gen_number
    native_call = _ntos_of
    n_quick = 300
    n_thorough = 5000
    ensures = {"denotes-the-number-to-3-decimals": lambda n, result: abs(float(result) - n) <= 0.00051 and "e" not in result.lower()}


def _gen_colour(rng):
    kind = rng.randrange(5)
    rgb = (rng.randrange(256), rng.randrange(256), rng.randrange(256)) if kind != 1 else rng.choice([(0, 0, 0), (255, 0, 0), (255, 255, 255), (0, 128, 0)])
    alpha = rng.choice([1.0, 1.0, 0.0, 128 / 255, rng.randrange(256) / 255])
    index = rng.choice([None, None, 0, 3, 17])
    current = kind == 4
    return {"rgb": rgb, "alpha": alpha, "index": index, "current": current}


def _colour_text_round_trip(rgb, alpha, index, current):
    from nanoemoji.colors import Color

    c = Color.current_color(alpha=1.0) if current else Color(rgb[0], rgb[1], rgb[2], alpha)
    if index is not None:
        c = c._replace(palette_index=index)
    text = c.to_string()
    back = Color.fromstring(text)
    return {"text": text, "same": (back.red, back.green, back.blue, back.palette_index) == (c.red, c.green, c.blue, c.palette_index) and abs(back.alpha - c.alpha) <= 1 / 255}


@contract("nanoemoji.colors.Color.to_string", props=["C02", "C13", "C15"])
class colour_text_conformance:
    bounded_only = True
    gen = _gen_colour
    native_call = _colour_text_round_trip
    n_quick = 400
    n_thorough = 10000
    ensures = {
        # the CSS text written into SVG output reads back as the same colour (alpha to 1/255),
        # including var(--colorN, c) and currentColor
        "text-denotes-the-colour": lambda result: result["same"],
    }
