"""Native conformance checks (bounded tier) of summaries that the proved tier assumes about
string-level helpers: the text they produce denotes the value they were given."""
from vlib import *


def _gen_affine(rng):
    import math

    k = rng.randrange(6)
    e, f = rng.choice([0, 0, 12.3456, -250, 1000.0005]), rng.choice([0, -7.25, 950, 0.00049])
    if k == 0:
        m = (1, 0, 0, 1, 0, 0)
    elif k == 1:
        m = (1, 0, 0, 1, e, f)
    elif k == 2:
        s = rng.choice([0.5, 2, 12, 0.0833333, 1.00049])
        m = (s, 0, 0, rng.choice([s, -s, 0.333333]), e, f)
    elif k == 3:
        t = math.radians(rng.choice([30, 45, 90, 123.4]))
        m = (math.cos(t), math.sin(t), -math.sin(t), math.cos(t), e, f)
    else:
        m = tuple(round(rng.uniform(-3, 3), rng.choice([1, 3, 6])) for _ in range(4)) + (e, f)
    return {"m": m}


def _svg_matrix_of(m):
    from nanoemoji import svg
    from picosvg.svg_transform import Affine2D

    return svg._svg_matrix(Affine2D(*m))


def _parse_transform(text):
    from picosvg.svg_transform import Affine2D

    return tuple(Affine2D.fromstring(text))


@contract("nanoemoji.svg._svg_matrix", props=["C02", "C13"])
class svg_matrix_conformance:
    bounded_only = True
    gen = _gen_affine
    native_call = _svg_matrix_of
    n_quick = 200
    n_thorough = 5000
    ensures = {
        # the text is an SVG transform denoting the affine rounded to 3 decimals
        "denotes-the-affine-to-3-decimals": lambda m, result: all(abs(u - v) <= 0.00051 for u, v in zip(_parse_transform(result), m)),
    }


def _gen_number(rng):
    return {"n": rng.choice([0, 1, -1, 0.5, 12.3456, -0.0004, 0.0005, 1e-7, 123456.789, rng.uniform(-1000, 1000), rng.uniform(-1, 1)])}


def _ntos_of(n):
    from nanoemoji import svg

    return svg._ntos(n)


@contract("nanoemoji.svg._ntos", props=["C02"])
class ntos_conformance:
    bounded_only = True
    gen = _gen_number
    native_call = _ntos_of
    n_quick = 300
    n_thorough = 5000
    ensures = {"denotes-the-number-to-3-decimals": lambda n, result: abs(float(result) - n) <= 0.00051 and "e" not in result.lower()}


def _gen_colour(rng):
    kind = rng.randrange(5)
    rgb = (rng.randrange(256), rng.randrange(256), rng.randrange(256)) if kind != 1 else rng.choice([(0, 0, 0), (255, 0, 0), (255, 255, 255), (0, 128, 0)])
    alpha = rng.choice([1.0, 1.0, 0.0, 128 / 255, rng.randrange(256) / 255])
    index = rng.choice([None, None, 0, 3, 17])
    current = kind == 4
    return {"rgb": rgb, "alpha": alpha, "index": index, "current": current}


def _colour_text_round_trip(rgb, alpha, index, current):
    from nanoemoji.colors import Color

    c = Color.current_color(alpha=1.0) if current else Color(rgb[0], rgb[1], rgb[2], alpha)
    if index is not None:
        c = c._replace(palette_index=index)
    text = c.to_string()
    back = Color.fromstring(text)
    return {"text": text, "same": (back.red, back.green, back.blue, back.palette_index) == (c.red, c.green, c.blue, c.palette_index) and abs(back.alpha - c.alpha) <= 1 / 255}


@contract("nanoemoji.colors.Color.to_string", props=["C02", "C13", "C15"])
class colour_text_conformance:
    bounded_only = True
    gen = _gen_colour
    native_call = _colour_text_round_trip
    n_quick = 400
    n_thorough = 10000
    ensures = {
        # the CSS text written into SVG output reads back as the same colour (alpha to 1/255),
        # including var(--colorN, c) and currentColor
        "text-denotes-the-colour": lambda result: result["same"],
    }


# ---- Paint.from_ot on transform paints: the field mapping otTables -> nanoemoji Paint ----
#
# `_colr_v1_paint_to_svg` reads every transform paint through Paint.from_ot(...).gettransform();
# its contracts summarise from_ot as "has SOME affine".  Which affine: fontTools' own
# Paint.getTransform of the same table (an independent implementation of the COLR text).

_TRANSFORM_FORMATS = {
    12: ("Transform",),
    14: ("dx", "dy"),
    16: ("scaleX", "scaleY"),
    18: ("scaleX", "scaleY", "centerX", "centerY"),
    20: ("scale",),
    22: ("scale", "centerX", "centerY"),
    24: ("angle",),
    26: ("angle", "centerX", "centerY"),
    28: ("xSkewAngle", "ySkewAngle"),
    30: ("xSkewAngle", "ySkewAngle", "centerX", "centerY"),
}


def _gen_ot_transform(rng, i=0):
    fmt = sorted(_TRANSFORM_FORMATS)[i % len(_TRANSFORM_FORMATS)]
    vals = {}
    for f in _TRANSFORM_FORMATS[fmt]:
        if f == "Transform":
            vals[f] = tuple(rng.choice([0.5, -0.75, 1.25, 2.0, 0.0, 1.0]) for _ in range(4)) + (rng.choice([0, 120, -37.5]), rng.choice([0, -80, 410.25]))
        elif f in ("dx", "dy", "centerX", "centerY"):
            vals[f] = rng.choice([0, 100, -250, 333, 12])
        elif f.startswith("scale"):
            vals[f] = rng.choice([0.5, 2.0, -1.0, 1.5, 0.25])
        else:  # angles, in half turns as COLR stores them
            vals[f] = rng.choice([0.25, -0.125, 0.5, 1 / 6, 0.03125])
    return {"fmt": fmt, "vals": vals}


def _from_ot_affine(fmt, vals):
    from fontTools.ttLib.tables import otTables as ot
    from nanoemoji.paint import Paint

    p = ot.Paint()
    p.Format = fmt
    for k, v in vals.items():
        if k == "Transform":
            t = ot.Affine2x3()
            t.xx, t.yx, t.xy, t.yy, t.dx, t.dy = v
            v = t
        setattr(p, k, v)
    leaf = ot.Paint()
    leaf.Format = 2
    leaf.PaletteIndex, leaf.Alpha = 0, 1.0
    p.Paint = leaf
    return {"nanoemoji": tuple(Paint.from_ot(p).gettransform()), "fonttools": tuple(p.getTransform())}


@contract("nanoemoji.paint.Paint.from_ot", props=["C13"])
class paint_from_ot_transform_conformance:
    bounded_only = True
    gen = _gen_ot_transform
    native_call = _from_ot_affine
    n_quick = 60
    n_thorough = 1500
    ensures = {
        "same-affine-as-the-table-denotes": lambda result: all(abs(a - b) <= 1e-9 * max(1.0, abs(b)) for a, b in zip(result["nanoemoji"], result["fonttools"])),
    }


# ---- the other direction: a nanoemoji transform paint written out (to_ufo_paint) and compiled
# by fontTools' colour-table builder denotes the affine the paint object stands for ----


def _gen_transform_paint(rng, i=0):
    kinds = ["PaintTransform", "PaintTranslate", "PaintScale", "PaintScaleAroundCenter", "PaintScaleUniform", "PaintScaleUniformAroundCenter", "PaintRotate", "PaintRotateAroundCenter", "PaintSkew", "PaintSkewAroundCenter"]
    kind = kinds[i % len(kinds)]
    s = lambda: rng.choice([0.5, 1.5, -0.75, 0.25, 1.25])
    c = lambda: (rng.choice([100, -40, 333, 12]), rng.choice([-250, 75, 410, 9]))  # x and y always differ
    a = lambda: rng.choice([30.0, -45.0, 90.0, 12.5])
    f = {
        "PaintTransform": lambda: {"transform": (s(), rng.choice([0.0, 0.25]), rng.choice([0.0, -0.5]), s(), float(c()[0]), float(c()[1]))},
        "PaintTranslate": lambda: dict(zip(("dx", "dy"), c())),
        "PaintScale": lambda: {"scaleX": 0.5, "scaleY": 1.5},
        "PaintScaleAroundCenter": lambda: {"scaleX": 0.5, "scaleY": 1.25, "center": c()},
        "PaintScaleUniform": lambda: {"scale": s()},
        "PaintScaleUniformAroundCenter": lambda: {"scale": s(), "center": c()},
        "PaintRotate": lambda: {"angle": a()},
        "PaintRotateAroundCenter": lambda: {"angle": a(), "center": c()},
        "PaintSkew": lambda: {"xSkewAngle": a() / 3, "ySkewAngle": a() / 5},
        "PaintSkewAroundCenter": lambda: {"xSkewAngle": a() / 3, "ySkewAngle": a() / 5, "center": c()},
    }[kind]()
    return {"kind": kind, "fields": f}


def _to_ufo_affine(kind, fields):
    from fontTools.colorLib.builder import LayerListBuilder
    from nanoemoji import paint as P
    from nanoemoji.colors import Color
    from picosvg.geometric_types import Point
    from picosvg.svg_transform import Affine2D

    red = Color(255, 0, 0, 1.0)
    kw = dict(fields)
    if "center" in kw:
        kw["center"] = Point(*kw["center"])
    if "transform" in kw:
        kw["transform"] = tuple(kw["transform"])
    obj = getattr(P, kind)(paint=P.PaintGlyph(glyph="g", paint=P.PaintSolid(color=red)), **kw)
    ufo_dict = obj.to_ufo_paint([red])
    ot_paint = LayerListBuilder().buildPaint(ufo_dict)
    return {"nanoemoji": tuple(obj.gettransform()), "compiled": tuple(ot_paint.getTransform()), "format": int(ot_paint.Format), "own_format": int(obj.format)}


@contract("nanoemoji.paint.PaintScaleAroundCenter.to_ufo_paint", props=["C16", "C01"])
class paint_to_ufo_transform_conformance:
    bounded_only = True
    gen = _gen_transform_paint
    native_call = _to_ufo_affine
    n_quick = 60
    n_thorough = 1000
    ensures = {
        # every transform paint class, stratified: what is handed to the font compiler denotes
        # the paint's own affine (to OpenType fixed-point precision), under the paint's format
        "written-paint-denotes-the-same-affine": lambda result: result["format"] == result["own_format"]
        and all(abs(a - b) <= 1e-3 * max(1.0, abs(b)) for a, b in zip(result["compiled"], result["nanoemoji"])),
    }
