"""colors.py -- C15 (palette), C08 (order independence of the palette)."""
from vlib import *
import spec

COLOR = Record("nanoemoji.colors.Color", palette_index=Optional_(IntRange(0, 5)))
COLOR_ANYIDX = Record("nanoemoji.colors.Color")
BLACK = (0, 0, 0, 1.0)


def rgba(c):
    return (c.red, c.green, c.blue, c.alpha)


def indexed(c):
    return not isnone(c.palette_index)


def conflict(colors):
    """two different colours declared for one palette index"""
    return any(indexed(a) and indexed(b) and a.palette_index == b.palette_index and a != b for a in colors for b in colors)


def n_distinct(colors):
    return sum(1 if all(colors[j] != colors[i] for j in range(i)) else 0 for i in range(len(colors)))


def max_index(colors):
    return max([c.palette_index if indexed(c) else -1 for c in colors] + [-1])


def is_black(c):
    return rgba(c) == BLACK and isnone(c.palette_index)


def _small(n):
    return ListOf(*([COLOR] * n))


@contract("nanoemoji.colors.uniq_sort_cpal_colors", props=["C15", "C08", "C17"])
class uniq_sort_cpal_colors:
    # finite scope: up to 3 colours (every channel and alpha unconstrained), explicit
    # palette indices 0..5.  Exhaustive symbolic execution of the real loops inside that
    # scope -- NOT an unbounded proof; counted under bounded_symbolic in the evidence.
    scope = "finite: 0..3 input colours, palette indices 0..5, channels/alpha unconstrained"
    args = {"colors": OneOf(_small(0), _small(1), _small(2), _small(3))}
    raises = {"ValueError": lambda colors: conflict(colors)}
    ensures = {
        "never-empty": lambda result: len(result) >= 1,
        "size": lambda colors, result: len(result) == max(n_distinct(colors), max_index(colors) + 1, 1 if len(colors) == 0 else 0),
        "indexed-colour-at-its-index": lambda colors, result: all(
            (not indexed(c)) or result[c.palette_index] == c for c in colors
        ),
        "every-colour-present": lambda colors, result: all(
            exists(0, len(result), lambda i: result[i] == c) for c in colors
        ),
        "nothing-invented": lambda colors, result: forall(
            0, len(result), lambda i: is_black(result[i]) or any(result[i] == c for c in colors)
        ),
        # unindexed colours occupy the lowest free slots, ascending by (r, g, b, a):
        # for unindexed a < b (as RGBA tuples) a's slot is before b's, and no free (black,
        # not requested) slot precedes an unindexed colour
        "unindexed-ascending": lambda colors, result: all(
            implies(
                # (an unindexed opaque black input cannot be told from a black filler slot)
                not indexed(a) and not indexed(b) and rgba(a) < rgba(b) and not is_black(a) and not is_black(b),
                forall(0, len(result), lambda i: forall(0, len(result), lambda j: implies(result[i] == a and result[j] == b, i < j))),
            )
            for a in colors
            for b in colors
        ),
        "gaps-only-after-unindexed": lambda colors, result: forall(
            0,
            len(result),
            lambda i: forall(
                0,
                len(result),
                lambda j: implies(
                    i < j and is_black(result[i]) and all(not (indexed(c) and c.palette_index == i) for c in colors) and all(not is_black(c) for c in colors),
                    any(indexed(c) and result[j] == c for c in colors) or is_black(result[j]),
                ),
            ),
        ),
    }
    native_skip = ("every-colour-present", "nothing-invented", "unindexed-ascending", "gaps-only-after-unindexed", "size")


@contract("nanoemoji.colors.Color.opaque", props=["C15"])
class color_opaque:
    args = {"self": COLOR_ANYIDX}
    returns = COLOR_ANYIDX
    ensures = {
        "alpha-one": lambda self, result: result.alpha == 1,
        "rest-kept": lambda self, result: (result.red, result.green, result.blue) == (self.red, self.green, self.blue)
        and result.palette_index == self.palette_index,
    }


@contract("nanoemoji.colors.Color.is_current_color", props=["C15"])
class color_is_current:
    args = {"self": COLOR_ANYIDX}
    returns = Bool
    ensures = {"sentinel": lambda self, result: iff(result, (self.red, self.green, self.blue) == (-1, -1, -1))}


@contract("nanoemoji.colors.Color.index_from", props=["C15", "C03"])
class color_index_from:
    args = {"self": COLOR_ANYIDX, "palette": SeqOf(COLOR_ANYIDX)}
    returns = Int
    # a colour that is not in the palette is an error, never a wrong index
    raises = {
        "ValueError": lambda self, palette: (self.red, self.green, self.blue) != (-1, -1, -1)
        and not exists(0, len(palette), lambda i: palette[i] == self)
    }
    ensures = {
        "foreground": lambda self, result: implies((self.red, self.green, self.blue) == (-1, -1, -1), result == 0xFFFF),
        "first-match": lambda self, palette, result: implies(
            (self.red, self.green, self.blue) != (-1, -1, -1),
            0 <= result and result < len(palette) and palette[result] == self and forall(0, result, lambda j: palette[j] != self),
        ),
    }
    native_skip = ("first-match", "raises:ValueError")
    native_ensures = {
        "first-match~": lambda self, palette, result: result == 0xFFFF or (palette[result] == self and self not in palette[:result]),
    }


@contract("nanoemoji.paint.PaintSolid.to_ufo_paint", props=["C15", "C01"])
class solid_to_ufo:
    args = {"self": Record("nanoemoji.paint.PaintSolid", color=COLOR_ANYIDX), "colors": SeqOf(COLOR_ANYIDX)}
    may_raise = ("ValueError",)
    ensures = {
        # COLRv1: the palette entry is the opaque colour, alpha travels with the paint
        "format": lambda result: result["Format"] == 2,
        "alpha-on-paint": lambda self, result: result["Alpha"] == self.color.alpha,
        "index-of-opaque-colour": lambda self, colors, result: implies(
            (self.color.red, self.color.green, self.color.blue) != (-1, -1, -1),
            (colors[result["PaletteIndex"]].red, colors[result["PaletteIndex"]].green, colors[result["PaletteIndex"]].blue)
            == (self.color.red, self.color.green, self.color.blue)
            and colors[result["PaletteIndex"]].alpha == 1
            and colors[result["PaletteIndex"]].palette_index == self.color.palette_index,
        ),
        "foreground": lambda self, result: implies(
            (self.color.red, self.color.green, self.color.blue) == (-1, -1, -1), result["PaletteIndex"] == 0xFFFF
        ),
        "keys": lambda result: sorted(result.keys()) == ["Alpha", "Format", "PaletteIndex"],
    }
    native_skip = ("index-of-opaque-colour",)


# ---- Color.fromstring: the caller's alpha (the shape's opacity) always multiplies in ---------

_TEXTS = {
    # text: ((r, g, b), alpha carried by the text, palette index)
    "#F00": ((255, 0, 0), 1, None),
    "#F008": ((255, 0, 0), 0x88 / 255, None),
    "#12AB3C": ((0x12, 0xAB, 0x3C), 1, None),
    "#FF000080": ((255, 0, 0), 0x80 / 255, None),
    " #00ff0040 ": ((0, 255, 0), 0x40 / 255, None),
    "red": ((255, 0, 0), 1, None),
    "black": ((0, 0, 0), 1, None),
    "rgb(1, 2, 3)": ((1, 2, 3), 1, None),
    "currentColor": ((-1, -1, -1), 1, None),
    "var(--color3, #0000FF40)": ((0, 0, 255), 0x40 / 255, 3),
    "var(--color0,red)": ((255, 0, 0), 1, 0),
}
_BAD_TEXTS = ("#FF00000", "#12345678F", "#12345", "#1", "foo(1,2)", "hsl(10,20%,30%)", "rgb(1,2)", "notacolour", "var(--color2, red) junk", "var(--color1, red)x")


@contract("nanoemoji.colors.Color.fromstring", props=["C01", "C03", "C15", "C17"])
class color_fromstring_alpha:
    scope = "finite: representative colour texts (hex of every legal and several illegal lengths, names, rgb(), currentColor, var(--colorN, c)); the alpha argument is unconstrained"
    args = {"cls": ClassOf("nanoemoji.colors.Color"), "s": OneOf(*[Const(t) for t in list(_TEXTS) + list(_BAD_TEXTS)]), "alpha": Real}
    # anything that is not a colour is an error (never a substituted paint)
    raises = {"ValueError": lambda s: s in _BAD_TEXTS}
    ensures = {
        "colour-of-the-text": lambda s, result: s in _BAD_TEXTS or (result.red, result.green, result.blue) == _TEXTS[s][0],
        # the alpha handed in (the shape's opacity) multiplies the text's own alpha
        "alpha-multiplies": lambda s, alpha, result: s in _BAD_TEXTS or result.alpha == alpha * _TEXTS[s][1],
        "palette-index-of-the-text": lambda s, result: s in _BAD_TEXTS or (isnone(result.palette_index) if _TEXTS[s][2] is None else result.palette_index == _TEXTS[s][2]),
    }
    native = False
