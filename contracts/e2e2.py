"""native helpers for c_e2e2.py (never interpreted by the prover)"""
import ast
import io, subprocess, sys
import os
import tempfile
from pathlib import Path

import e2e


def _png(w, h, rgb=(200, 30, 30)):
    from PIL import Image

    buf = io.BytesIO()
    Image.new("RGBA", (w, h), rgb + (255,)).save(buf, format="PNG")
    return buf.getvalue()


def _simple_glyph(rng, cps, fill=None, vb=(0, 0, 100, 100)):
    pts = e2e._poly(rng, vb)
    return e2e.GlyphSpec(vb, [e2e.Shape(pts, fill or e2e.Solid(e2e._rgb(rng)))], cps)


# ---------------------------------------------------------------------------- generic build


def build_any(glyphs, overrides, names=None, with_features=False):
    """builds with nanoemoji's real _generate_color_font; returns a dict"""
    from nanoemoji import write_font, features
    from nanoemoji.glyph import glyph_name
    from nanoemoji.png import PNG
    from picosvg.svg import SVG
    from fontTools import ttLib

    over_ = dict(overrides)
    pngs = over_.pop("_pngs", None)
    cfg = e2e.default_config(**over_)
    with tempfile.TemporaryDirectory(prefix="verif_e2e_") as d:
        if with_features:
            fea = os.path.join(d, "features.fea")
            with open(fea, "w") as f:
                f.write(features.generate_fea(tuple(g.codepoints for g in glyphs)))
            cfg = cfg._replace(fea_file=fea)
        inputs = []
        for i, g in enumerate(glyphs):
            svg = None
            if cfg.has_svgs:
                svg = SVG.fromstring(e2e.svg_text(g))
                if cfg.has_picosvgs:
                    svg = svg.topicosvg(inplace=True)
            bitmap = PNG(pngs[i]) if (cfg.has_bitmaps and pngs) else None
            name = names[i] if names else (getattr(g, "name", None) or glyph_name(g.codepoints))
            inputs.append(
                write_font.InputGlyph(
                    Path(f"src/g{i}.svg") if cfg.has_svgs else None, Path(f"png/g{i}.png") if bitmap is not None else None, g.codepoints, name, svg, bitmap
                )
            )
        ufo, ttfont = write_font._generate_color_font(cfg, inputs)
    buf = io.BytesIO()
    ttfont.save(buf)
    data = buf.getvalue()
    problems = []
    font = None
    try:
        font = ttLib.TTFont(io.BytesIO(data), lazy=False)
        for tag in font.keys():
            font[tag]
        buf2 = io.BytesIO()
        font.save(buf2)
        font2 = ttLib.TTFont(io.BytesIO(buf2.getvalue()), lazy=False)
        if font2.getGlyphOrder() != font.getGlyphOrder():
            problems.append("glyph order changes on re-save")
        if sorted(font2.keys()) != sorted(font.keys()):
            problems.append("tables change on re-save")
        f1 = ttLib.TTFont(io.BytesIO(data), lazy=False)
        for tag in font2.keys():
            if tag in ("head", "GlyphOrder"):
                continue
            a, b = f1.getTableData(tag), font2.getTableData(tag)
            if a != b:
                # compare decompiled XML: byte layout may legitimately differ (offset packing)
                x1, x2 = _xml(f1, tag), _xml(font2, tag)
                if x1 != x2:
                    problems.append(f"table {tag} differs after load -> save -> load")
    except Exception as e:  # noqa: BLE001
        problems.append(f"reload failed: {type(e).__name__}: {e}")
    return {"cfg": cfg, "font": font, "ufo": ufo, "inputs": inputs, "data": data, "roundtrip_problems": problems, "pngs": pngs}


def _xml(font, tag):
    from fontTools.misc.xmlWriter import XMLWriter

    buf = io.StringIO()
    w = XMLWriter(buf)
    font[tag].toXML(w, font)
    return buf.getvalue()


# ---------------------------------------------------------------------------- C17


class HarnessError(Exception):
    pass


def gen_bad_input(rng, i=None):
    # every kind occurs in every run (stratified by case index), formats are drawn
    kind = (lambda ks: ks[i % len(ks)] if i is not None else rng.choice(ks))(["dup-codepoints", "dup-codepoints-files", "dup-basename-cli", "dup-name", "dup-preexisting-name", "palette-conflict", "bad-fill", "bad-spread", "too-big-bitmap", "missing-svg", "unparsable-svg", "masters-differ", "dup-basename", "ignored-argument-cli"])
    fmt = rng.choice(["glyf_colr_1", "glyf_colr_0", "picosvg", "untouchedsvg", "glyf"])
    return {"case": {"kind": kind, "fmt": fmt, "seed": rng.randrange(1 << 30)}}


def try_build(case):
    import random
    from nanoemoji import write_font, config
    from nanoemoji.glyphmap import GlyphMapping

    rng = random.Random(case["seed"])
    kind, fmt = case["kind"], case["fmt"]
    out = {"raised": None, "font": None}
    try:
        if kind == "dup-codepoints":
            a = _simple_glyph(rng, (0x1F600,))
            b = _simple_glyph(rng, (0x1F600,))
            r = build_any([a, b], dict(color_format=fmt, output_file="o.ttf"))
            out["font"] = r["font"]
        elif kind == "dup-codepoints-files":
            # two differently named files whose names resolve to the same codepoints, through
            # the default glyph map generator
            from picosvg.svg import SVG

            a = _simple_glyph(rng, (0x1F600,))
            b = _simple_glyph(rng, (0x1F600,))
            c = _simple_glyph(rng, (0x1F601,))
            stems = rng.choice([("emoji_u1f600", "u1f600"), ("emoji_u1F600", "emoji_u1f600"), ("u1f600", "1f600")])
            cfg = e2e.default_config(color_format=fmt, output_file="o.ttf")
            with tempfile.TemporaryDirectory(prefix="verif_e2e_") as d:
                paths = []
                for stem, g in ((stems[0], a), (stems[1], b), ("emoji_u1f601", c)):
                    p = os.path.join(d, stem + ".svg")
                    svg = SVG.fromstring(e2e.svg_text(g))
                    if cfg.has_picosvgs:
                        svg = svg.topicosvg(inplace=True)
                    open(p, "w").write(svg.tostring())
                    paths.append(p)
                rng.shuffle(paths)
                # (write_glyphmap defines a flag that collides with config's: own process)
                csv_p = os.path.join(d, "Font.glyphmap")
                src = next((p_ for p_ in sys.path if p_.endswith("/src") and os.path.isdir(os.path.join(p_, "nanoemoji"))), "/repo/src")
                r_ = subprocess.run([sys.executable, "-m", "nanoemoji.write_glyphmap", "--output_file", csv_p] + paths, env=dict(os.environ, PYTHONPATH=src), capture_output=True, text=True, timeout=120)
                if r_.returncode != 0:
                    raise HarnessError("write_glyphmap failed: " + r_.stderr[-300:])
                from nanoemoji import glyphmap

                gms = glyphmap.parse_csv(csv_p)
                fea = os.path.join(d, "features.fea")
                open(fea, "w").write("")
                inputs = list(write_font._inputs(cfg._replace(fea_file=fea), gms))
                out["font"] = write_font._generate_color_font(cfg._replace(fea_file=fea), inputs)[1]
        elif kind == "dup-basename-cli":
            # the command line itself: two different drawings with one file name (in two
            # directories), next to a valid one -- the CLI must fail and leave no font
            a = _simple_glyph(rng, (0x1F600,))
            b = _simple_glyph(rng, (0x1F600,))
            c = _simple_glyph(rng, (0x1F601,))
            with tempfile.TemporaryDirectory(prefix="verif_e2e_") as d:
                files = []
                for sub, nm, g in (("set_a", "emoji_u1f600.svg", a), ("set_b", "emoji_u1f600.svg", b), ("set_a", "emoji_u1f601.svg", c)):
                    os.makedirs(os.path.join(d, sub), exist_ok=True)
                    p_ = os.path.join(d, sub, nm)
                    open(p_, "w").write(e2e.svg_text(g))
                    files.append(os.path.relpath(p_, d))
                rng.shuffle(files)
                src = next((p_ for p_ in sys.path if p_.endswith("/src") and os.path.isdir(os.path.join(p_, "nanoemoji"))), "/repo/src")
                env = dict(os.environ, PYTHONPATH=src, PATH="/venv/bin:" + os.environ.get("PATH", ""))
                r_ = subprocess.run([sys.executable, "-m", "nanoemoji.nanoemoji", "--color_format", fmt, "--build_dir", os.path.join(d, "build")] + files, cwd=d, env=env, capture_output=True, text=True, timeout=600)
                wrote = [f for f in os.listdir(os.path.join(d, "build")) if f.endswith((".ttf", ".otf"))] if os.path.isdir(os.path.join(d, "build")) else []
                if r_.returncode == 0 or wrote:
                    out["font"] = f"CLI exit {r_.returncode}, wrote {wrote}"
                else:
                    out["raised"] = "CLI exited %d: %s" % (r_.returncode, (r_.stderr or r_.stdout)[-160:].replace("\n", " "))
        elif kind == "ignored-argument-cli":
            # the command line itself: a source whose name the driver does not recognise
            # (valid SVG in a file ending .SVG, or a mistyped name) next to a valid one -- a
            # font that silently lacks that source must not be written
            a = _simple_glyph(rng, (0x1F600,))
            b = _simple_glyph(rng, (0x1F601,))
            with tempfile.TemporaryDirectory(prefix="verif_e2e_") as d:
                odd = rng.choice(["emoji_u1f601.SVG", "emoji_u1f601.svg ", "emoji_u1f601.sgv", "emoji_u1f601"])
                open(os.path.join(d, "emoji_u1f600.svg"), "w").write(e2e.svg_text(a))
                open(os.path.join(d, odd), "w").write(e2e.svg_text(b))
                files = ["emoji_u1f600.svg", odd]
                rng.shuffle(files)
                src = next((p_ for p_ in sys.path if p_.endswith("/src") and os.path.isdir(os.path.join(p_, "nanoemoji"))), "/repo/src")
                env = dict(os.environ, PYTHONPATH=src, PATH="/venv/bin:" + os.environ.get("PATH", ""))
                r_ = subprocess.run([sys.executable, "-m", "nanoemoji.nanoemoji", "--color_format", fmt, "--build_dir", os.path.join(d, "build")] + files, cwd=d, env=env, capture_output=True, text=True, timeout=600)
                fonts = [f for f in os.listdir(os.path.join(d, "build")) if f.endswith((".ttf", ".otf"))] if os.path.isdir(os.path.join(d, "build")) else []
                complete = False
                if r_.returncode == 0 and fonts:
                    from fontTools import ttLib

                    complete = 0x1F601 in ttLib.TTFont(os.path.join(d, "build", fonts[0])).getBestCmap()
                if complete:
                    # (accepting the file and drawing it is as good as rejecting it)
                    out["raised"] = "accepted: the font holds the source"
                elif r_.returncode == 0 or fonts:
                    out["font"] = f"CLI exit {r_.returncode}, wrote {fonts} without the source {odd!r}"
                else:
                    out["raised"] = "CLI exited %d: %s" % (r_.returncode, (r_.stderr or r_.stdout)[-160:].replace("\n", " "))
        elif kind == "dup-name":
            a = _simple_glyph(rng, (0x1F600,))
            b = _simple_glyph(rng, (0x1F601,))
            r = build_any([a, b], dict(color_format=fmt, output_file="o.ttf"), names=["same", "same"])
            out["font"] = r["font"]
        elif kind == "dup-preexisting-name":
            # names the font skeleton already has before the inputs are processed
            a = _simple_glyph(rng, (0x1F600,))
            b = _simple_glyph(rng, (0x1F601,))
            nm = rng.choice([".notdef", ".space"])
            r = build_any([a, b], dict(color_format=rng.choice(["glyf_colr_1", "glyf_colr_0", "picosvg"]), output_file="o.ttf"), names=[nm, nm])
            out["font"] = r["font"]
        elif kind == "palette-conflict":
            a = _simple_glyph(rng, (0x1F600,))
            b = _simple_glyph(rng, (0x1F601,))
            r = _build_raw([_var_fill(a, 1, "#FF0000"), _var_fill(b, 1, "#0000FF")], [a, b], dict(color_format=rng.choice(["glyf_colr_1", "glyf_colr_0"]), output_file="o.ttf"))
            out["font"] = r
        elif kind == "bad-fill":
            a = _simple_glyph(rng, (0x1F600,))
            # a paint nanoemoji cannot read: an unknown function, or a hex colour of a length
            # that is none of #RGB #RGBA #RRGGBB #RRGGBBAA
            bad_fill = rng.choice(["foo(1,2)", "#FF00000", "#12345678F", "#12345", "#1G2B3C", "hsl(10,20%,30%)"])
            txt = e2e.svg_text(a).replace('fill="#', f'fill="{bad_fill}" data-x="#', 1)
            out["font"] = _build_raw([txt], [a], dict(color_format=rng.choice(["glyf_colr_1", "glyf_colr_0", "picosvg"]), output_file="o.ttf"))
        elif kind == "bad-spread":
            a = _simple_glyph(rng, (0x1F600,))
            a.items[0].fill = e2e.Linear((0, 0), (1, 0), [(0.0, (255, 0, 0), 1.0), (1.0, (0, 0, 255), 1.0)], "objectBoundingBox", None, "reflect")
            txt = e2e.svg_text(a).replace('spreadMethod="reflect"', 'spreadMethod="bogus"')
            out["font"] = _build_raw([txt], [a], dict(color_format=rng.choice(["glyf_colr_1", "picosvg"]), output_file="o.ttf"))
        elif kind == "too-big-bitmap":
            a = _simple_glyph(rng, (0x1F600,))
            r = build_any([a], dict(color_format="cbdt", output_file="o.ttf", bitmap_resolution=rng.choice([256, 300]), _pngs=[_png(300, 300)]))
            out["font"] = r["font"]
        elif kind == "missing-svg":
            cfg = e2e.default_config(color_format=fmt)
            with tempfile.TemporaryDirectory(prefix="verif_e2e_") as d:
                p = os.path.join(d, "x.png")
                open(p, "wb").write(_png(16, 16))
                out["font"] = list(write_font._inputs(cfg, [GlyphMapping(None, Path(p), (0x1F600,), "g_1f600")]))
        elif kind == "unparsable-svg":
            cfg = e2e.default_config(color_format=fmt)
            with tempfile.TemporaryDirectory(prefix="verif_e2e_") as d:
                p = os.path.join(d, "x.svg")
                open(p, "w").write("<svg xmlns='http://www.w3.org/2000/svg'><path d='M0,0'")
                out["font"] = list(write_font._inputs(cfg, [GlyphMapping(Path(p), None, (0x1F600,), "g_1f600")]))
        elif kind in ("masters-differ", "dup-basename"):
            with tempfile.TemporaryDirectory(prefix="verif_e2e_") as d:
                # masters whose source sets differ in any way: another name, a missing
                # source, or an extra source (which would otherwise silently be dropped)
                b_files = rng.choice([["1f600.svg", "1f602.svg"], ["1f600.svg"], ["1f600.svg", "1f601.svg", "1f602.svg"]])
                for sub, files in (("a", ["1f600.svg", "1f601.svg"]), ("b", b_files if kind == "masters-differ" else ["1f600.svg", "1f601.svg"])):
                    os.makedirs(os.path.join(d, sub, "x"), exist_ok=True)
                    for fn in files:
                        open(os.path.join(d, sub, fn), "w").write("<svg/>")
                if kind == "dup-basename":
                    open(os.path.join(d, "a", "x", "1f600.svg"), "w").write("<svg/>")
                srcs_a = '["a/*.svg", "a/x/*.svg"]' if kind == "dup-basename" else '["a/*.svg"]'
                toml = f'''output_file = "F.ttf"
[axis.wght]
name = "Weight"
default = 300
[master.thin]
style_name = "Thin"
srcs = {srcs_a}
[master.thin.position]
wght = 300
[master.bold]
style_name = "Bold"
srcs = ["b/*.svg"]
[master.bold.position]
wght = 700
'''
                p = os.path.join(d, "c.toml")
                open(p, "w").write(toml)
                out["font"] = config.load(Path(p))
    except Exception as e:  # noqa: BLE001
        import traceback

        frames = traceback.extract_tb(e.__traceback__)
        in_code = any(("/nanoemoji/" in f.filename or "/picosvg/" in f.filename or "/fontTools/" in f.filename or "/ufo2ft/" in f.filename or "/toml/" in f.filename) for f in frames)
        if isinstance(e, HarnessError) or type(e).__name__ in ("DuplicateFlagError", "ImportError", "ModuleNotFoundError") or not in_code:
            # an error of this harness is not a rejection by nanoemoji
            out["raised"] = None
            out["harness_error"] = f"{type(e).__name__}: {e}"[:300]
        else:
            out["raised"] = f"{type(e).__name__}: {e}"[:200]
        out["font"] = None
    return out


def _var_fill(g, idx, color):
    return e2e.svg_text(g).replace('fill="#', f'fill="var(--color{idx}, {color})" data-x="#', 1)


def _build_raw(svg_texts, glyphs, overrides):
    from nanoemoji import write_font
    from nanoemoji.glyph import glyph_name
    from picosvg.svg import SVG

    cfg = e2e.default_config(**overrides)
    inputs = []
    for i, (txt, g) in enumerate(zip(svg_texts, glyphs)):
        svg = SVG.fromstring(txt)
        if cfg.has_picosvgs:
            svg = svg.topicosvg(inplace=True)
        inputs.append(write_font.InputGlyph(Path(f"src/g{i}.svg"), None, g.codepoints, glyph_name(g.codepoints), svg, None))
    ufo, ttfont = write_font._generate_color_font(cfg, inputs)
    return ttfont


def main_write_order():
    import inspect
    from nanoemoji import write_font

    src = inspect.getsource(write_font.main)
    fn = ast.parse(src).body[0]
    gen_i = write_i = None
    for i, st in enumerate(fn.body):
        calls = [n.func.id for n in ast.walk(st) if isinstance(n, ast.Call) and isinstance(n.func, ast.Name)]
        if "_generate_color_font" in calls and gen_i is None:
            gen_i = i
        if "_write" in calls and write_i is None:
            write_i = i
    after_ok = True
    if write_i is not None:
        for st in fn.body[write_i + 1 :]:
            ok = isinstance(st, ast.Expr) and isinstance(st.value, ast.Call) and isinstance(st.value.func, ast.Attribute) and getattr(st.value.func.value, "id", "") == "logging"
            after_ok = after_ok and ok
    return {"generate_before_write": gen_i is not None and write_i is not None and gen_i < write_i, "nothing_after_write_can_fail": after_ok}


# ---------------------------------------------------------------------------- C04

_SEQS = [
    (0x1F600,), (0x1F601,), (0x41,), (0x2198,), (0x1F468,), (0x1F469,),
    (0x1F468, 0x200D, 0x1F469), (0x1F468, 0x200D, 0x1F469, 0x200D, 0x1F467), (0x1F3F3, 0xFE0F), (0x1F44D, 0x1F3FB),
    (0x41, 0x42), (0x41, 0x42, 0x43), (0x1F469, 0x200D, 0x1F468),
]


def gen_sequences_set(rng):
    seqs = rng.sample(_SEQS, rng.randint(2, 6))
    glyphs = [_simple_glyph(rng, s, vb=rng.choice(e2e._VIEWBOXES)) for s in seqs]
    fmt = rng.choice(["glyf_colr_1", "glyf_colr_1", "glyf_colr_0", "picosvg", "glyf", "cff_colr_1", "untouchedsvg", "sbix", "cbdt"])
    over_ = dict(color_format=fmt, output_file="o.otf" if fmt.startswith("cff") else "o.ttf", keep_glyph_names=rng.random() < (0.3 if fmt in ("sbix", "cbdt") else 0.6))
    if fmt in ("sbix", "cbdt"):
        # one distinguishable bitmap per source
        over_["bitmap_resolution"] = 64
        over_["_pngs"] = [_png(64, 64, (10 + 37 * i % 240, 200 - 23 * i % 200, 5 + 11 * i)) for i in range(len(glyphs))]
    return {"glyphs": glyphs, "overrides": over_}


def build_with_features(glyphs, overrides):
    return build_any(glyphs, overrides, with_features=True)


def _ligatures(font):
    out = {}
    if "GSUB" not in font:
        return out
    for lookup in font["GSUB"].table.LookupList.Lookup:
        for st in lookup.SubTable:
            if st.LookupType == 7:
                st = st.ExtSubTable
            if st.LookupType == 4:
                for first, ligs in st.ligatures.items():
                    for lig in ligs:
                        out.setdefault((first,) + tuple(lig.Component), []).append(lig.LigGlyph)
    return out


def glyph_for(result, cps):
    """the glyph a text engine reaches: cmap for one codepoint, cmap + ligature for a sequence"""
    font = result["font"]
    cmap = font.getBestCmap()
    if any(c not in cmap for c in cps):
        return None
    names = tuple(cmap[c] for c in cps)
    if len(names) == 1:
        return names[0]
    ligs = _ligatures(font).get(names, [])
    return ligs[0] if len(ligs) == 1 else None


def _expected_glyph(result, i):
    """the glyph that carries source i: the glyph created for input i (by name when the
    font keeps names, by glyph id otherwise)"""
    font = result["font"]
    name = result["inputs"][i].glyph_name
    if name in font.getGlyphOrder():
        return name
    if "SVG " in font:
        # names stripped AND glyph order reshuffled for document grouping: identity is
        # decided by the artwork clause alone
        return None
    gid = list(result["ufo"].glyphOrder).index(name)
    return font.getGlyphOrder()[gid]


def cmap_problems(glyphs, result):
    bad = []
    for i, g in enumerate(glyphs):
        if len(g.codepoints) == 1:
            got = glyph_for(result, g.codepoints)
            want = _expected_glyph(result, i)
            if got is None or (want is not None and got != want):
                bad.append((g.codepoints, got, want))
    return bad


def ligature_problems(glyphs, result):
    bad = []
    font = result["font"]
    ligs = _ligatures(font)
    want = {}
    for i, g in enumerate(glyphs):
        if len(g.codepoints) > 1:
            got = glyph_for(result, g.codepoints)
            want[got] = g.codepoints
            if got is None:
                bad.append((g.codepoints, "no unique ligature"))
            elif _expected_glyph(result, i) is not None and got != _expected_glyph(result, i):
                bad.append((g.codepoints, got, _expected_glyph(result, i)))
    # only from them: no other rule produces a colour glyph
    targets = [t for ts in ligs.values() for t in ts]
    if len(targets) != len(set(targets)):
        bad.append(("ligature targets repeat", targets))
    if len(ligs) != sum(1 for g in glyphs if len(g.codepoints) > 1):
        bad.append(("number of ligature rules", len(ligs)))
    return bad


def _is_blank(font, name):
    if "glyf" in font:
        g = font["glyf"][name]
        return g.numberOfContours == 0
    return len(e2e.glyph_polys(font, name)) == 0


def skeleton_problems(glyphs, result):
    font, cfg = result["font"], result["cfg"]
    bad = []
    order = font.getGlyphOrder()
    if order[0] != ".notdef":
        bad.append("glyph 0 is not .notdef")
    elif _is_blank(font, ".notdef") and not cfg.has_bitmaps:
        bad.append(".notdef has no outline")
    cmap = font.getBestCmap()
    if 0x20 not in cmap:
        bad.append("U+0020 unmapped")
    else:
        sp = cmap[0x20]
        if not _is_blank(font, sp):
            bad.append("space is not blank")
    direct = {g.codepoints[0] for g in glyphs if len(g.codepoints) == 1}
    members = {c for g in glyphs for c in g.codepoints}
    for c in sorted(members - direct):
        if c not in cmap:
            bad.append(f"U+{c:04X} (sequence member) unmapped")
        elif not _is_blank(font, cmap[c]):
            bad.append(f"U+{c:04X} glyph is not blank")
    return bad


def artwork_problems(glyphs, result):
    """the glyph reached from the codepoints shows the source's artwork (COLR / glyf: its
    outline covers the source shape's centroid; OT-SVG: the document element exists)"""
    import c_e2e

    font, cfg = result["font"], result["cfg"]
    bad = []
    for g in glyphs:
        name = glyph_for(result, g.codepoints)
        if name is None:
            bad.append((g.codepoints, "unreachable"))
            continue
        sh = g.items[0]
        cx = sum(p[0] for p in sh.pts) / len(sh.pts)
        cy = sum(p[1] for p in sh.pts) / len(sh.pts)
        adv = font["hmtx"][name][0]
        if "sbix" in font or "CBDT" in font:
            png = result["pngs"][glyphs.index(g)]
            if "sbix" in font:
                imgs = [st.glyphs[name].imageData for st in font["sbix"].strikes.values() if name in st.glyphs]
            else:
                imgs = [bytes(data[name].imageData) for data in font["CBDT"].strikeData if name in data]
            if len(imgs) != 1 or imgs[0] is None or bytes(imgs[0]) != png:
                bad.append((g.codepoints, name, "glyph does not carry the source's bitmap", len(imgs)))
            continue
        if "COLR" in font:
            F = e2e.placement(g.viewbox, cfg.ascender, cfg.descender, adv, tuple(cfg.transform))
            c = e2e.ColrEval(font).glyph_color(name, e2e.ap(F, (cx, cy)))
            want = e2e.spec_color(g, (cx, cy))
            if c is None or want is None or not e2e.color_close(want, c):
                bad.append((g.codepoints, name, want, c))
        elif "SVG " in font:
            F = e2e.placement(g.viewbox, cfg.ascender, cfg.descender, adv, tuple(cfg.transform), otsvg=True)
            c = c_e2e._otsvg_eval(font)(0, name, e2e.ap(F, (cx, cy)))
            want = e2e.spec_color(g, (cx, cy))
            if c is None or isinstance(c, str) or want is None or not e2e.color_close(want, c):
                bad.append((g.codepoints, name, want, c))
        else:
            F = e2e.placement(g.viewbox, cfg.ascender, cfg.descender, adv, tuple(cfg.transform))
            if not e2e.inside_glyph(e2e.glyph_polys(font, name), e2e.ap(F, (cx, cy))):
                bad.append((g.codepoints, name, "outline does not cover the source shape"))
    return bad


# ---------------------------------------------------------------------------- C07

_ALL_FORMATS = [
    "glyf", "glyf_colr_0", "glyf_colr_1", "cff_colr_0", "cff_colr_1", "cff2_colr_0", "cff2_colr_1",
    "picosvg", "picosvgz", "untouchedsvg", "untouchedsvgz", "cbdt", "sbix",
]


def gen_any_format(rng):
    fmt = rng.choice(_ALL_FORMATS)
    glyphs = e2e.gen_glyphset(rng, n_glyphs=rng.randint(1, 5), gradients=fmt not in ("glyf_colr_0", "cff_colr_0", "cff2_colr_0", "glyf"), groups="colr_1" in fmt or "svg" in fmt)
    # non-contiguous codepoints and a sequence now and then
    for i, g in enumerate(glyphs):
        g.codepoints = rng.choice([(0xE000 + 3 * i,), (0x1F600 + i,), (0x1F468, 0x200D, 0x1F469 + i)])
    over_ = dict(color_format=fmt, output_file="o.otf" if fmt.startswith("cff") else "o.ttf", keep_glyph_names=rng.random() < 0.5)
    if fmt in ("cbdt", "sbix"):
        res = rng.choice([32, 64, 128])
        over_["bitmap_resolution"] = res
        over_["_pngs"] = [_png(res, res, e2e._rgb(rng)) for _ in glyphs]
    return {"glyphs": glyphs, "overrides": over_}


def table_problems(glyphs, overrides, result):
    import c_e2e

    font, cfg = result["font"], result["cfg"]
    if font is None:
        return ["no font"]
    bad = []
    order = font.getGlyphOrder()
    n = len(order)
    if len(set(order)) != n:
        bad.append("duplicate glyph names")
    if font["maxp"].numGlyphs != n:
        bad.append("maxp.numGlyphs")
    if set(font["hmtx"].metrics) != set(order):
        bad.append("hmtx glyph set")
    if "glyf" in font and set(font["glyf"].keys()) != set(order):
        bad.append("glyf glyph set")
    cmap = font.getBestCmap()
    if any(v not in order for v in cmap.values()):
        bad.append("cmap references an unknown glyph")
    if cfg.output_file.endswith(".ttf"):
        want3 = not cfg.keep_glyph_names
        if want3 and font["post"].formatType != 3:
            bad.append(f"post format {font['post'].formatType}, glyph names were not requested")
        if not want3 and font["post"].formatType == 3:
            bad.append("post format 3 although glyph names were requested")
    if "COLR" in font:
        colr = font["COLR"]
        if colr.version == 0:
            gids = [font.getGlyphID(k) for k in colr.ColorLayers]
            for k, layers in colr.ColorLayers.items():
                for l in layers:
                    if l.name not in order:
                        bad.append(f"COLR layer glyph {l.name}")
                    if l.colorID != 0xFFFF and l.colorID >= len(font["CPAL"].palettes[0]):
                        bad.append("COLR colorID out of range")
        else:
            t = colr.table
            recs = t.BaseGlyphList.BaseGlyphPaintRecord if t.BaseGlyphList else []
            gids = [font.getGlyphID(r.BaseGlyph) for r in recs]
            if gids != sorted(gids) or len(set(gids)) != len(gids):
                bad.append("COLR base glyph records not sorted by glyph id")
            nlayers = len(t.LayerList.Paint) if t.LayerList else 0
            pal = len(font["CPAL"].palettes[0])

            def walk(p):
                F = p.Format
                if F == 1 and p.FirstLayerIndex + p.NumLayers > nlayers:
                    bad.append("layer range out of bounds")
                if hasattr(p, "Glyph") and p.Glyph not in order:
                    bad.append(f"paint references unknown glyph {p.Glyph}")
                if hasattr(p, "PaletteIndex") and p.PaletteIndex != 0xFFFF and p.PaletteIndex >= pal:
                    bad.append("palette index out of range")
                if hasattr(p, "ColorLine") and p.ColorLine is not None:
                    for s in p.ColorLine.ColorStop:
                        if s.PaletteIndex != 0xFFFF and s.PaletteIndex >= pal:
                            bad.append("stop palette index out of range")
                for attr in ("Paint", "SourcePaint", "BackdropPaint"):
                    ch = getattr(p, attr, None)
                    if ch is not None:
                        walk(ch)

            for r in recs:
                walk(r.Paint)
            for p in t.LayerList.Paint if t.LayerList else []:
                walk(p)
    if "SVG " in font:
        bad += c_e2e._otsvg_structure(result)
    if "CBLC" in font:
        seen = set()
        for strike, data in zip(font["CBLC"].strikes, font["CBDT"].strikeData):
            bst = strike.bitmapSizeTable
            names = [nm for st in strike.indexSubTables for nm in st.names]
            gids = [font.getGlyphID(nm) for nm in names]
            if gids != list(range(bst.startGlyphIndex, bst.endGlyphIndex + 1)):
                bad.append(f"CBLC strike does not index a run of consecutive glyph ids: {gids} vs [{bst.startGlyphIndex},{bst.endGlyphIndex}]")
            if set(names) != set(data.keys()):
                bad.append("CBLC/CBDT glyph sets differ")
            if seen & set(names):
                bad.append("glyph in two strikes")
            seen |= set(names)
    return bad


# ---------------------------------------------------------------------------- C20


def gen_options(rng):
    from picosvg.svg_transform import Affine2D

    fmt = rng.choice(["glyf_colr_1", "glyf_colr_1", "glyf_colr_0", "picosvg", "glyf", "cff_colr_1"])
    asc = rng.choice([950, 800, 1900, 700])
    over_ = dict(
        color_format=fmt,
        output_file="o.otf" if fmt.startswith("cff") else "o.ttf",
        family=rng.choice(["Fam", "An Emoji Family", "Üñí Códe"]),
        upem=rng.choice([1000, 1024, 2048]),
        ascender=asc,
        descender=-rng.choice([0, 200, 250, 500]),
        linegap=rng.choice([0, 50, 123]),
        width=rng.choice([0, 600, 1275]),
        version_major=rng.randint(0, 9),
        version_minor=rng.randint(0, 999),
        keep_glyph_names=rng.random() < 0.5,
        clipbox_quantization=rng.choice([None, None, 1, 10, 64]),
        transform=rng.choice([Affine2D.identity(), Affine2D(1, 0, 0, 1, 30, -10), Affine2D(0.9, 0, 0, 0.9, 0, 0)]),
    )
    return {"glyphs": e2e.gen_glyphset(rng, gradients=fmt not in ("glyf_colr_0", "glyf"), groups="colr_1" in fmt), "overrides": over_}


def option_problems(glyphs, overrides, result):
    from nanoemoji.glyph import glyph_name

    font, cfg = result["font"], result["cfg"]
    o = overrides
    bad = []
    if font["name"].getDebugName(1) != o["family"]:
        bad.append(("family", font["name"].getDebugName(1)))
    if font["head"].unitsPerEm != o["upem"]:
        bad.append("upem")
    if abs(font["head"].fontRevision - (o["version_major"] + o["version_minor"] / 1000)) > 0.0006:
        bad.append(("version", font["head"].fontRevision))
    hh, os2 = font["hhea"], font["OS/2"]
    if (hh.ascent, hh.descent, hh.lineGap) != (o["ascender"], o["descender"], o["linegap"]):
        bad.append(("hhea", hh.ascent, hh.descent, hh.lineGap))
    if (os2.sTypoAscender, os2.sTypoDescender, os2.sTypoLineGap) != (o["ascender"], o["descender"], o["linegap"]):
        bad.append("OS/2 typo metrics")
    if not os2.fsSelection & (1 << 7):
        bad.append("USE_TYPO_METRICS not set")
    fmt = o["color_format"]
    present = set(font.keys())
    want = {"glyf_colr_1": {"COLR", "CPAL", "glyf"}, "glyf_colr_0": {"COLR", "CPAL", "glyf"}, "picosvg": {"SVG ", "glyf"}, "glyf": {"glyf"}, "cff_colr_1": {"COLR", "CPAL", "CFF "}}[fmt]
    if not want <= present:
        bad.append(("tables", sorted(want - present)))
    if fmt == "glyf" and ({"COLR", "SVG ", "CBDT"} & present):
        bad.append("colour tables in a glyf build")
    if "COLR" in font and font["COLR"].version != (1 if fmt.endswith("_1") else 0):
        bad.append("COLR version")
    if fmt.endswith(".otf") and "CFF " not in present:
        bad.append("flavour")
    if o["output_file"].endswith(".ttf") and fmt != "picosvg":
        if (font["post"].formatType == 3) != (not o["keep_glyph_names"]):
            bad.append(("post", font["post"].formatType))
    for g in glyphs:
        name = glyph_name(g.codepoints)
        if name in font["hmtx"].metrics and font["hmtx"][name][0] != e2e.advance_rule(g.viewbox, o["width"], o["ascender"], o["descender"]):
            bad.append(("advance", name))
    cmap = font.getBestCmap()
    if font["hmtx"][cmap[0x20]][0] != o["width"]:
        bad.append("space width")
    if "COLR" in font and font["COLR"].version == 1:
        t = font["COLR"].table
        q = o["clipbox_quantization"] if o["clipbox_quantization"] is not None else round(0.02 * o["upem"])
        for nm, box in (t.ClipList.clips.items() if t.ClipList else []):
            if any(v % q for v in (box.xMin, box.yMin, box.xMax, box.yMax)):
                bad.append(("clip box not a multiple of the quantisation step", nm, q))
    return bad


# ---------------------------------------------------------------------------- C14


def gen_bitmap_set(rng, i=None):
    fmt = rng.choice(["cbdt", "sbix"])
    res = rng.choice([32, 64, 128, 136])
    n = rng.randint(1, 4)
    if i is not None and i % 5 == 0:
        # forced scenario (a .notdef bitmap, below): at least two glyphs, formats alternating
        fmt = ["cbdt", "sbix"][(i // 5) % 2]
        n = max(n, 2)
    glyphs = [_simple_glyph(rng, (0x1F600 + 2 * i_,)) for i_ in range(n)]
    if i is not None and i % 5 == 0 and n >= 2:
        # artwork for .notdef (glyph 0): the colour glyphs are then glyph 0 and glyphs 2.. --
        # two runs of glyph ids, as .space (glyph 1) has no bitmap
        glyphs[rng.randrange(n)].name = ".notdef"
    pngs = [_png(rng.choice([res, res, min(250, res * 2), res // 2 + 1]), res, e2e._rgb(rng)) for _ in range(n)]
    if n > 1 and rng.random() < 0.3 and not any(getattr(g, "name", None) for g in glyphs):
        # (not together with a .notdef bitmap: that one sits in a run -- a CBLC strike -- of its
        # own, and bitmaps of another height there give a font whose strikes differ in ppem
        # and in the glyphs they hold; the statement says nothing about such fonts: left out)
        # one strike has one ppem: a set of bitmaps of different pixel heights cannot be
        # represented (it must be rejected, or every glyph must still get its own ppem)
        k = rng.randrange(n)
        pngs[k] = _png(rng.choice([res, res // 2 + 1]), rng.choice([res // 2, res + 8, min(250, res * 2)]), e2e._rgb(rng))
    metrics = rng.choice([dict(), dict(upem=1000, ascender=800, descender=-200, width=0), dict(upem=2048, ascender=1900, descender=-500, width=2400)])
    cfg_res = res
    if i is not None and i % 5 == 2:
        # the PNGs were not rendered at the configured resolution (maximum_color --bitmaps
        # --bitmap_resolution R renders at R while its CBDT configuration keeps the default)
        cfg_res = rng.choice([r_ for r_ in (32, 64, 128, 200) if r_ != res])
    elif i is not None and i % 5 == 3 and fmt == "sbix":
        # sbix strikes larger than CBDT's 8-bit limits allow
        big = rng.choice([200, 256, 300])
        pngs = [_png(rng.choice([big, big // 2 + 1]), big, e2e._rgb(rng)) for _ in range(n)]
        cfg_res = big
    over_ = dict(metrics, color_format=fmt, output_file="o.ttf", bitmap_resolution=cfg_res, keep_glyph_names=True, _pngs=pngs)
    return {"glyphs": glyphs, "overrides": over_}


def bitmap_problems(glyphs, overrides, result):
    from nanoemoji.glyph import glyph_name
    from PIL import Image

    font, cfg = result["font"], result["cfg"]
    bad = []
    F = cfg.ascender - cfg.descender
    for g, png in zip(glyphs, result["pngs"]):
        name = getattr(g, "name", None) or glyph_name(g.codepoints)
        w, h = Image.open(io.BytesIO(png)).size
        ppem = round(cfg.upem * h / F)
        adv_px = round(max(cfg.width, w * F / h) * h / F)
        hmtx_adv = font["hmtx"][name][0]
        if hmtx_adv != max(cfg.width, round(F * w / h)):
            bad.append((name, "hmtx advance", hmtx_adv))
        if "CBDT" in font:
            found = None
            for strike, data in zip(font["CBLC"].strikes, font["CBDT"].strikeData):
                if name in data:
                    found = (strike, data[name])
            if found is None:
                bad.append((name, "no bitmap"))
                continue
            strike, bm = found
            if bytes(bm.imageData) != png:
                bad.append((name, "image bytes differ"))
            if (strike.bitmapSizeTable.ppemX, strike.bitmapSizeTable.ppemY) != (ppem, ppem):
                bad.append((name, "ppem", strike.bitmapSizeTable.ppemX, ppem))
            hori = strike.bitmapSizeTable.hori
            lh = round(F * ppem / cfg.upem)
            if hori.ascender != round(cfg.ascender * ppem / cfg.upem) or hori.descender != -(lh - hori.ascender):
                bad.append((name, "strike line metrics", hori.ascender, hori.descender))
            m = bm.metrics
            if m.Advance != adv_px:
                bad.append((name, "pixel advance", m.Advance, adv_px))
            nudged = m.BearingY in (127, -128)
            tol = 2 if nudged else 1
            if F <= 2 * cfg.upem:
                if abs(m.BearingY - cfg.ascender * ppem / cfg.upem) > tol + 1e-9:
                    bad.append((name, "top edge", m.BearingY, cfg.ascender * ppem / cfg.upem))
                if abs((m.BearingY - h) - cfg.descender * ppem / cfg.upem) > tol + 1e-9:
                    bad.append((name, "bottom edge", m.BearingY - h, cfg.descender * ppem / cfg.upem))
            if abs(m.BearingX - (adv_px - w) / 2) > 0.5 + 1e-9 and m.BearingX != 127:
                bad.append((name, "horizontal centring", m.BearingX, (adv_px - w) / 2))
        else:
            sb = font["sbix"]
            if list(sb.strikes) != [ppem]:
                bad.append((name, "sbix strike ppem", list(sb.strikes), ppem))
                continue
            gl = sb.strikes[ppem].glyphs.get(name)
            if gl is None or bytes(gl.imageData) != png:
                bad.append((name, "sbix image bytes"))
                continue
            # originOffsetY: bottom of the bitmap relative to the baseline
            if F <= 2 * cfg.upem and abs(gl.originOffsetY - cfg.descender * ppem / cfg.upem) > 1 + 1e-9:
                bad.append((name, "sbix bottom edge", gl.originOffsetY, cfg.descender * ppem / cfg.upem))
            if F <= 2 * cfg.upem and abs(gl.originOffsetY + h - cfg.ascender * ppem / cfg.upem) > 1 + 1e-9:
                bad.append((name, "sbix top edge", gl.originOffsetY + h, cfg.ascender * ppem / cfg.upem))
            if abs(gl.originOffsetX - (adv_px - w) / 2) > 0.5 + 1e-9:
                bad.append((name, "sbix horizontal centring", gl.originOffsetX))
    return bad


# ---- C06 / C19 through the real command line: reuse enabled and reuse disabled both build ----


def gen_cli_reuse(rng, i=None):
    i = rng.randrange(4) if i is None else i
    fmt = ["glyf_colr_1", "picosvg", "glyf_colr_0", "glyf"][i % 4]
    glyphs = e2e.gen_glyphset(rng, n_glyphs=2, gradients=fmt in ("glyf_colr_1", "picosvg") and rng.random() < 0.5, groups=False, reuse=True)
    # the smallest input that matters: a glyph holding two congruent rectangles
    vb = glyphs[0].viewbox
    x, y, w, h = vb
    r = [(x + 0.1 * w, y + 0.1 * h), (x + 0.3 * w, y + 0.1 * h), (x + 0.3 * w, y + 0.25 * h), (x + 0.1 * w, y + 0.25 * h)]
    glyphs[0].items.append(e2e.Shape([(round(px), round(py)) for px, py in r], e2e.Solid(e2e._rgb(rng)), 1.0))
    glyphs[0].items.append(e2e.Shape([(round(px + 0.4 * w), round(py + 0.5 * h)) for px, py in r], e2e.Solid(e2e._rgb(rng)), 1.0))
    for g in glyphs:
        for sh in e2e.all_shapes(g):
            if getattr(sh.fill, "current", False) and fmt == "glyf_colr_0":
                sh.opacity = 1.0  # known finding F14 has its own witness
    for k, g in enumerate(glyphs):
        g.codepoints = (0x1F600 + k,)
    return {"fmt": fmt, "glyphs": glyphs, "tolerances": [rng.choice([0.1, 0.05, 0.5]), [-1, -0.5, -1, -2][i % 4]]}


def run_cli_reuse(fmt, glyphs, tolerances):
    from fontTools import ttLib

    src = next((p_ for p_ in sys.path if p_.endswith("/src") and os.path.isdir(os.path.join(p_, "nanoemoji"))), "/repo/src")
    out = {}
    with tempfile.TemporaryDirectory(prefix="verif_cli_") as d:
        files = []
        for g in glyphs:
            p = os.path.join(d, "emoji_u%x.svg" % g.codepoints[0])
            open(p, "w").write(e2e.svg_text(g))
            files.append(os.path.basename(p))
        env = dict(os.environ, PYTHONPATH=src, PATH="/venv/bin:" + os.environ.get("PATH", ""))
        for tol in tolerances:
            b = os.path.join(d, "b%s" % str(tol).replace("-", "m").replace(".", "_"))
            cmd = [sys.executable, "-m", "nanoemoji.nanoemoji", "--build_dir", b, "--color_format", fmt, "--keep_glyph_names", f"--reuse_tolerance={tol}"] + files
            r = subprocess.run(cmd, cwd=d, env=env, capture_output=True, text=True, timeout=900)
            font = None
            fp = os.path.join(b, "Font.ttf")
            if r.returncode == 0 and os.path.exists(fp):
                font = ttLib.TTFont(io.BytesIO(open(fp, "rb").read()), lazy=False)
            out[tol] = {"exit": r.returncode, "font": font, "stderr": (r.stdout + r.stderr)[-600:]}
    return out


def cli_reuse_problems(fmt, glyphs, tolerances, result):
    import c_e2e

    bad = []
    cfg = e2e.default_config(color_format=fmt)
    for tol in tolerances:
        r = result[tol]
        if r["exit"] != 0 or r["font"] is None:
            bad.append((tol, "the command failed", r["stderr"][-300:]))
            continue
        res = {"cfg": cfg, "font": r["font"]}
        if fmt == "glyf_colr_1" or fmt == "glyf_colr_0":
            mm = c_e2e._picture_mismatches(glyphs, res, c_e2e._colr_eval)
        elif fmt == "picosvg":
            mm = c_e2e._picture_mismatches(glyphs, res, c_e2e._otsvg_eval, otsvg=True)
        else:
            mm = []
        if mm:
            bad.append((tol, "picture differs from the source", mm[:2]))
    return bad


# ---- C20 through the real command line: options by flag and by TOML file ----


def gen_cli_options(rng, i=None):
    a = gen_options(rng)
    o = a["overrides"]
    if o["color_format"] == "cff_colr_1":
        o["color_format"], o["output_file"] = "glyf_colr_1", "o.ttf"
    o["output_file"] = rng.choice(["o.ttf", "My Font.ttf"])
    a["glyphs"] = a["glyphs"][:2]
    for k, g in enumerate(a["glyphs"]):
        g.codepoints = (0x1F600 + k,)
    names = sorted(k for k in o if k != "output_file")
    # which options travel by flag, which in the TOML file; a few in BOTH, with another value
    # in the file (the flag must win)
    by_flag = set(rng.sample(names, rng.randint(0, len(names))))
    both = set(rng.sample(sorted(by_flag), min(len(by_flag), rng.randint(0, 3))))
    return {"glyphs": a["glyphs"], "overrides": o, "by_flag": sorted(by_flag), "both": sorted(both), "user_fea": None}


def k14_witness():
    import random

    a = gen_cli_options(random.Random(14), 0)
    a["overrides"]["keep_glyph_names"] = True
    a["overrides"]["color_format"] = "glyf_colr_1"
    a["by_flag"], a["both"] = ["keep_glyph_names"], []
    # a user feature file, given with the documented --fea_file option
    a["user_fea"] = "feature ss01 { sub g_1f600 by g_1f601; } ss01;\n"
    return a


_OTHER = dict(family="Other Family", upem=512, ascender=444, descender=-111, linegap=77, width=321, version_major=42, version_minor=7, keep_glyph_names=None, clipbox_quantization=3, color_format="glyf", transform=None)


def run_cli_options(glyphs, overrides, by_flag, both, user_fea=None):
    from fontTools import ttLib

    def toml_value(k, v):
        if k == "transform":
            return '"' + v.tostring() + '"'
        if isinstance(v, bool):
            return str(v).lower()
        if isinstance(v, str):
            return '"' + v + '"'
        return str(v)

    src = next((p_ for p_ in sys.path if p_.endswith("/src") and os.path.isdir(os.path.join(p_, "nanoemoji"))), "/repo/src")
    with tempfile.TemporaryDirectory(prefix="verif_cli_") as d:
        files = []
        for g in glyphs:
            p = os.path.join(d, "emoji_u%x.svg" % g.codepoints[0])
            open(p, "w").write(e2e.svg_text(g))
            files.append(os.path.basename(p))
        lines, flags = [], []
        for k, v in overrides.items():
            in_file = k not in by_flag or k in both
            if k in by_flag:
                if v is None:
                    continue  # an option that is not given (clipbox_quantization: default)
                if isinstance(v, bool):
                    flags.append(("--" if v else "--no") + k)
                elif k == "transform":
                    flags.append(f"--{k}={v.tostring()}")
                else:
                    flags.append(f"--{k}={v}")
            if in_file:
                fv = v
                if k in both:
                    fv = _OTHER.get(k)
                    if k == "keep_glyph_names":
                        fv = not v
                    if k == "transform" or fv is None:
                        continue
                if fv is None:
                    continue
                lines.append(f"{k} = {toml_value(k, fv)}")
        lines += ["[axis.wght]", 'name = "Weight"', "default = 400", "[master.regular]", 'style_name = "Regular"', "srcs = [" + ", ".join(f'"{f}"' for f in files) + "]", "[master.regular.position]", "wght = 400"]
        open(os.path.join(d, "c.toml"), "w").write("\n".join(lines) + "\n")
        if user_fea:
            open(os.path.join(d, "my.fea"), "w").write(user_fea)
            flags.append("--fea_file=" + os.path.join(d, "my.fea"))
        env = dict(os.environ, PYTHONPATH=src, PATH="/venv/bin:" + os.environ.get("PATH", ""))
        cmd = [sys.executable, "-m", "nanoemoji.nanoemoji", "--build_dir", os.path.join(d, "b")] + flags + ["c.toml"]
        r = subprocess.run(cmd, cwd=d, env=env, capture_output=True, text=True, timeout=900)
        fp = os.path.join(d, "b", overrides["output_file"])
        font = None
        if r.returncode == 0 and os.path.exists(fp):
            font = ttLib.TTFont(io.BytesIO(open(fp, "rb").read()), lazy=False)
        return {"exit": r.returncode, "font": font, "cfg": None, "stderr": (r.stdout + r.stderr)[-800:], "written": sorted(os.listdir(os.path.join(d, "b"))) if os.path.isdir(os.path.join(d, "b")) else []}


def cli_option_problems(glyphs, overrides, by_flag, both, result, user_fea=None):
    if result["exit"] != 0 or result["font"] is None:
        return [("the command failed or wrote no font under the requested name", result["stderr"][-300:], result["written"])]
    glyphs2 = glyphs if overrides["keep_glyph_names"] else []
    bad = option_problems(glyphs2, overrides, result)
    if user_fea:
        font = result["font"]
        tags = {fr.FeatureTag for fr in font["GSUB"].table.FeatureList.FeatureRecord} if "GSUB" in font and font["GSUB"].table.FeatureList else set()
        if "ss01" not in tags:
            bad.append(("fea_file: the user's feature ss01 is not in GSUB", sorted(tags)))
    return bad


def k13_witness():
    # a shape that crosses the viewBox, filled with an objectBoundingBox gradient: the driver's
    # picosvg step clips the outline (clip_to_viewbox, the default) and the gradient is then
    # resolved against the CLIPPED outline's box
    stops = [(0.0, (255, 0, 0), 1.0), (1.0, (0, 0, 255), 1.0)]
    fill = e2e.Linear((0, 0), (1, 0), stops, "objectBoundingBox", None, "pad")
    g = e2e.GlyphSpec((0, 0, 100, 100), [e2e.Shape([(-100, 10), (100, 10), (100, 45), (-100, 45)], fill, 1.0)], (0x1F600,))
    return {"fmt": "glyf_colr_1", "glyphs": [g], "tolerances": [0.1]}


# ---- C14: a bitmap build may be refused only for what the format cannot represent ----


def bitmap_rejection_is_legitimate(glyphs, overrides):
    """may the build of this bitmap set end in an error?  Yes when bitmaps that have to share
    a strike differ in pixel height (one strike has one ppem), or -- CBDT only -- when a value
    does not fit the format's 8-bit fields (image size, pixel advance, ppem, line metrics,
    BearingY beyond the one-pixel nudge)"""
    from PIL import Image
    from nanoemoji.glyph import glyph_name

    o = dict(overrides)
    pngs = o.pop("_pngs")
    cfg = e2e.default_config(**o)
    F = cfg.ascender - cfg.descender
    sizes = [Image.open(io.BytesIO(p)).size for p in pngs]
    names = [getattr(g, "name", None) or glyph_name(g.codepoints) for g in glyphs]
    if cfg.color_format == "sbix":
        return len({h for _, h in sizes}) > 1
    # CBDT: .notdef (glyph 0) is a run of its own, the other colour glyphs (2, 3, ...) another
    runs = [[s for s, n in zip(sizes, names) if n == ".notdef"], [s for s, n in zip(sizes, names) if n != ".notdef"]]
    for run in runs:
        if len({h for _, h in run}) > 1:
            return True
    for w, h in sizes:
        ppem = round(cfg.upem * h / F)
        adv_px = round(max(cfg.width, w * F / h) * h / F)
        line_height = round(F * ppem / cfg.upem)
        asc = round(cfg.ascender * ppem / cfg.upem)
        y = round(cfg.ascender * ppem / cfg.upem - 0.5 * (line_height - h))
        if max(w, h) > 255 or adv_px > 255 or not 0 < ppem <= 255 or not -128 <= asc <= 127 or not -128 <= -(line_height - asc) <= 127 or not -129 <= y <= 128 or cfg.bitmap_resolution > 255:
            return True
    return False


def build_bitmaps(glyphs, overrides):
    import struct

    try:
        return build_any(glyphs, overrides)
    except (ValueError, AssertionError, struct.error, StopIteration) as e:
        if bitmap_rejection_is_legitimate(glyphs, overrides):
            return {"rejected": repr(e)[:200]}
        raise
