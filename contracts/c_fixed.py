from vlib import *
import spec


@contract("nanoemoji.fixed.int16_safe", props=["C16"])
class int16_safe_2:
    args = {"values": TupleOf(Real, Real)}
    returns = Bool
    ensures = {
        # within 1e-9 of an integer (truncation toward zero is what the code uses: so the
        # fractional part, toward zero, is at most 1e-9) and inside the int16 field
        "range": lambda values, result: iff(
            result,
            all(spec.in_int16(v) and abs(v - int(v)) <= 1e-9 for v in values),
        ),
    }


@contract("nanoemoji.fixed.f2dot14_safe", props=["C16"])
class f2dot14_safe_2:
    args = {"values": TupleOf(Real, Real)}
    returns = Bool
    ensures = {"range": lambda values, result: iff(result, all(spec.in_f2dot14(v) for v in values))}


@contract("nanoemoji.fixed.fixed_safe", props=["C16", "C06"])
class fixed_safe_6:
    args = {"values": TupleOf(Real, Real, Real, Real, Real, Real)}
    returns = Bool
    ensures = {"range": lambda values, result: iff(result, all(spec.in_fixed(v) for v in values))}
