"""More end-to-end run-time contracts (bounded tier): rejection (C17), reachability (C04),
structural validity (C07), options reaching the font (C20), bitmap glyphs (C14)."""
from vlib import *
import e2e
import e2e2 as X


# ---------------------------------------------------------------------------- C17


@contract("nanoemoji.write_font._generate_color_font", props=["C17"])
class e2e_rejections:
    bounded_only = True
    gen = X.gen_bad_input
    native_call = X.try_build
    n_quick = 60
    n_thorough = 600
    ensures = {
        # ambiguous or unusable input stops the build: an exception, never a font
        "rejected": lambda case, result: result["raised"] is not None and result["font"] is None,
    }


@contract("nanoemoji.write_font.main", props=["C17"])
class write_only_after_success:
    bounded_only = True
    gen = lambda rng: {}
    native_call = X.main_write_order
    n_quick = 1
    n_thorough = 1
    ensures = {
        # the output file is written only after _generate_color_font returned normally, and
        # nothing that can fail follows the write
        "write-follows-generate": lambda result: result["generate_before_write"] and result["nothing_after_write_can_fail"],
    }


@contract("nanoemoji.nanoemoji._run", props=["C06", "C19", "C01"])
class cli_reuse_enabled_and_disabled:
    bounded_only = True
    gen = X.gen_cli_reuse
    native_call = X.run_cli_reuse
    n_quick = 4
    n_thorough = 40
    ensures = {
        # through the real command line (its part-file steps included): a positive tolerance
        # and the documented -1 both build, and both fonts paint the sources
        "both-build-and-paint-the-sources": lambda fmt, glyphs, tolerances, result: X.cli_reuse_problems(fmt, glyphs, tolerances, result) == [],
    }
    known_witnesses = {"K13": X.k13_witness}


# ---------------------------------------------------------------------------- C04


@contract("nanoemoji.write_font._generate_color_font", props=["C04"])
class e2e_reachability:
    bounded_only = True
    gen = X.gen_sequences_set
    native_call = X.build_with_features
    n_quick = 30
    n_thorough = 400
    ensures = {
        "single-codepoints-via-cmap": lambda glyphs, result: X.cmap_problems(glyphs, result) == [],
        "sequences-via-ligatures": lambda glyphs, result: X.ligature_problems(glyphs, result) == [],
        "distinct-sources-distinct-glyphs": lambda glyphs, result: len({X.glyph_for(result, g.codepoints) for g in glyphs}) == len(glyphs),
        "notdef-space-and-blanks": lambda glyphs, result: X.skeleton_problems(glyphs, result) == [],
        "each-glyph-carries-its-own-artwork": lambda glyphs, result: X.artwork_problems(glyphs, result) == [],
    }


# ---------------------------------------------------------------------------- C07


@contract("nanoemoji.write_font._generate_color_font", props=["C07"])
class e2e_structure:
    bounded_only = True
    gen = X.gen_any_format
    native_call = X.build_any
    n_quick = 40
    n_thorough = 500
    ensures = {
        "loads-decompiles-resaves": lambda result: result["roundtrip_problems"] == [],
        "table-constraints": lambda glyphs, overrides, result: X.table_problems(glyphs, overrides, result) == [],
    }


# ---------------------------------------------------------------------------- C20


@contract("nanoemoji.write_font._generate_color_font", props=["C20"])
class e2e_options:
    bounded_only = True
    gen = X.gen_options
    native_call = X.build_any
    n_quick = 30
    n_thorough = 400
    ensures = {
        "options-reach-their-observables": lambda glyphs, overrides, result: X.option_problems(glyphs, overrides, result) == [],
    }


@contract("nanoemoji.nanoemoji._run", props=["C20"])
class cli_options_by_flag_and_file:
    bounded_only = True
    gen = X.gen_cli_options
    native_call = X.run_cli_options
    n_quick = 5
    n_thorough = 60
    ensures = {
        # through the real command line: every option, given by flag, in the TOML file or in
        # both (the flag wins), reaches its observable in the font written under the requested
        # output name
        "options-reach-their-observables": lambda glyphs, overrides, by_flag, both, user_fea, result: X.cli_option_problems(glyphs, overrides, by_flag, both, result, user_fea) == [],
    }
    known_witnesses = {"K14": X.k14_witness}


# ---------------------------------------------------------------------------- C14


@contract("nanoemoji.write_font._generate_color_font", props=["C14", "C07"])
class e2e_bitmaps:
    bounded_only = True
    gen = X.gen_bitmap_set
    native_call = X.build_bitmaps
    n_quick = 30
    n_thorough = 400
    # bitmaps or metric combinations the format cannot represent are rejected with an error --
    # and ONLY those: build_bitmaps lets an exception count as a rejection when
    # bitmap_rejection_is_legitimate says the set is not representable, any other exception
    # is a failure of this contract
    ensures = {
        "image-bytes-ppem-and-placement": lambda glyphs, overrides, result: "rejected" in result or X.bitmap_problems(glyphs, overrides, result) == [],
    }
