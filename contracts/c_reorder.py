"""reorder_glyphs.py -- C11."""
from vlib import *
import reorder_helpers as H

_GID = Const(lambda g: ufn("glyph_id", "int", g))


def _pairs(glyphs, parallel):
    return [(g, e) for (g, e) in zip(glyphs, parallel)]


def _sorted_by_gid(glyphs):
    return all(ufn("glyph_id", "int", glyphs[i]) <= ufn("glyph_id", "int", glyphs[i + 1]) for i in range(len(glyphs) - 1))


def _perm_of(new, old):
    """same multiset (lists of known length)"""
    return len(new) == len(old) and all(sum(1 if x == y else 0 for y in new) == sum(1 if x == y else 0 for y in old) for x in old)


def _lists(n):
    return ListOf(*([Str] * n)), ListOf(*([Int] * n))


@contract("nanoemoji.reorder_glyphs._sort_by_gid", props=["C11"])
class sort_by_gid_paired:
    scope = "finite: coverage of 1..3 glyphs with a parallel list of the same length; names, glyph ids and entries unconstrained"
    args = {
        "get_glyph_id": _GID,
        "glyphs": OneOf(ListOf(Str), ListOf(Str, Str), ListOf(Str, Str, Str)),
        "parallel_list": OneOf(ListOf(Int), ListOf(Int, Int), ListOf(Int, Int, Int)),
    }
    requires = [lambda glyphs, parallel_list: len(glyphs) == len(parallel_list)]
    ensures = {
        "coverage-sorted-by-glyph-id": lambda glyphs: _sorted_by_gid(glyphs),
        # arrays indexed by coverage stay paired with their glyphs
        "pairing-preserved": lambda glyphs, parallel_list, old: _perm_of(_pairs(glyphs, parallel_list), _pairs(old.glyphs, old.parallel_list)),
    }
    native = False


@contract("nanoemoji.reorder_glyphs._sort_by_gid", props=["C11"])
class sort_by_gid_alone:
    scope = "finite: coverage of 0..3 glyphs, no parallel list"
    args = {
        "get_glyph_id": _GID,
        "glyphs": OneOf(ListOf(), ListOf(Str), ListOf(Str, Str), ListOf(Str, Str, Str)),
        "parallel_list": Const(None),
    }
    ensures = {
        "coverage-sorted-by-glyph-id": lambda glyphs: _sorted_by_gid(glyphs),
        "same-glyphs": lambda glyphs, old: _perm_of(glyphs, old.glyphs),
    }
    native = False


def _srt(calls):
    return calls["builtins.sorted"][0]


def _gid(g):
    return ufn("glyph_id", "int", g)


@contract("nanoemoji.reorder_glyphs._sort_by_gid", props=["C11"])
class sort_by_gid_paired_any_length:
    """Unbounded: coverage and parallel list of any (equal) length.  The only axiom is the
    semantics of the builtin `sorted` (a key-ordered, stable rearrangement by a bijection, see
    vc/builtins_.seq_sorted); what is proved is that the real function's data flow -- zip, the key
    taken from the glyph, the unzip and both slice assignments -- carries it to both lists."""

    args = {"get_glyph_id": _GID, "glyphs": SeqOf(Str), "parallel_list": SeqOf(Int)}
    requires = [lambda glyphs, parallel_list: len(glyphs) == len(parallel_list)]
    assumes = ["builtin sorted(): result is the input rearranged by a bijection of its index range, keys non-decreasing, equal keys in source order (axiom, not derived from CPython's listsort)"]
    ensures = {
        "lengths-kept": lambda glyphs, parallel_list, old: len(glyphs) == len(old.glyphs) and len(parallel_list) == len(old.parallel_list),
        "coverage-sorted-by-glyph-id": lambda glyphs: forall(0, len(glyphs) - 1, lambda i: _gid(glyphs[i]) <= _gid(glyphs[i + 1])),
        # arrays indexed by coverage stay paired with their glyphs: ONE bijection moves both
        "pairing-preserved": lambda glyphs, parallel_list, old, calls: forall(
            0, len(glyphs), lambda i: glyphs[i] == old.glyphs[_srt(calls).perm(i)] and parallel_list[i] == old.parallel_list[_srt(calls).perm(i)]
        ),
        "rearrangement-is-a-bijection": lambda glyphs, calls: forall(
            0,
            len(glyphs),
            lambda i: 0 <= _srt(calls).perm(i)
            and _srt(calls).perm(i) < len(glyphs)
            and _srt(calls).inv(_srt(calls).perm(i)) == i
            and 0 <= _srt(calls).inv(i)
            and _srt(calls).inv(i) < len(glyphs)
            and _srt(calls).perm(_srt(calls).inv(i)) == i,
        ),
        # nothing is lost: the old pair j is found at position inv(j)
        "every-old-pair-still-present": lambda glyphs, parallel_list, old, calls: forall(
            0, len(glyphs), lambda j: glyphs[_srt(calls).inv(j)] == old.glyphs[j] and parallel_list[_srt(calls).inv(j)] == old.parallel_list[j]
        ),
    }
    native = False


@contract("nanoemoji.reorder_glyphs._sort_by_gid", props=["C11"])
class sort_by_gid_alone_any_length:
    """Unbounded: a coverage of any length without a parallel list."""

    args = {"get_glyph_id": _GID, "glyphs": SeqOf(Str), "parallel_list": Const(None)}
    assumes = ["builtin sorted(): as for sort_by_gid_paired_any_length"]
    ensures = {
        "length-kept": lambda glyphs, old: len(glyphs) == len(old.glyphs),
        "coverage-sorted-by-glyph-id": lambda glyphs: forall(0, len(glyphs) - 1, lambda i: _gid(glyphs[i]) <= _gid(glyphs[i + 1])),
        "same-glyphs": lambda glyphs, old, calls: forall(0, len(glyphs), lambda i: glyphs[i] == old.glyphs[_srt(calls).perm(i)]),
        "every-old-glyph-still-present": lambda glyphs, old, calls: forall(0, len(glyphs), lambda j: glyphs[_srt(calls).inv(j)] == old.glyphs[j]),
        "rearrangement-is-a-bijection": lambda glyphs, calls: forall(
            0,
            len(glyphs),
            lambda i: 0 <= _srt(calls).perm(i)
            and _srt(calls).perm(i) < len(glyphs)
            and _srt(calls).inv(_srt(calls).perm(i)) == i
            and 0 <= _srt(calls).inv(i)
            and _srt(calls).inv(i) < len(glyphs)
            and _srt(calls).perm(_srt(calls).inv(i)) == i,
        ),
    }
    native = False


_REC = Obj(SecondGlyph=Str, payload=Int)


@contract("nanoemoji.reorder_glyphs.ReorderList.apply", props=["C11"])
class reorder_list_any_length:
    """Unbounded: the records of a glyph-ordered list (PairSet.PairValueRecord by SecondGlyph)
    are rearranged as whole records, by a bijection, into glyph-id order of their key glyph."""

    args = {
        "self": Record("nanoemoji.reorder_glyphs.ReorderList", list_attr=Const("PairValueRecord"), key=Const("SecondGlyph")),
        "font": Obj(getGlyphID=_GID),
        "value": Obj(PairValueRecord=SeqOf(_REC)),
    }
    assumes = ["builtin list.sort(): as sorted() for sort_by_gid_paired_any_length"]
    ensures = {
        "length-kept": lambda value, old: len(value.PairValueRecord) == len(old.value.PairValueRecord),
        "ordered-by-glyph-id-of-the-key-glyph": lambda value: forall(
            0, len(value.PairValueRecord) - 1, lambda i: _gid(value.PairValueRecord[i].SecondGlyph) <= _gid(value.PairValueRecord[i + 1].SecondGlyph)
        ),
        "records-moved-whole": lambda value, old, calls: forall(
            0,
            len(value.PairValueRecord),
            lambda i: value.PairValueRecord[i].SecondGlyph == old.value.PairValueRecord[_srt(calls).perm(i)].SecondGlyph
            and value.PairValueRecord[i].payload == old.value.PairValueRecord[_srt(calls).perm(i)].payload,
        ),
        "nothing-lost": lambda value, old, calls: forall(
            0,
            len(value.PairValueRecord),
            lambda j: value.PairValueRecord[_srt(calls).inv(j)].SecondGlyph == old.value.PairValueRecord[j].SecondGlyph
            and value.PairValueRecord[_srt(calls).inv(j)].payload == old.value.PairValueRecord[j].payload
            and 0 <= _srt(calls).inv(j)
            and _srt(calls).inv(j) < len(value.PairValueRecord),
        ),
    }
    native = False


def _cov_clauses(par):
    """clauses of ReorderCoverage.apply over value.Coverage.glyphs and (if any) the parallel list"""
    g = lambda v: v.Coverage.glyphs
    out = {
        "length-kept": lambda value, old: len(g(value)) == len(g(old.value)),
        "coverage-sorted-by-glyph-id": lambda value: forall(0, len(g(value)) - 1, lambda i: _gid(g(value)[i]) <= _gid(g(value)[i + 1])),
        "same-glyphs": lambda value, old, calls: forall(0, len(g(value)), lambda i: g(value)[i] == g(old.value)[_srt(calls).perm(i)]),
        "nothing-lost": lambda value, old, calls: forall(
            0, len(g(value)), lambda j: g(value)[_srt(calls).inv(j)] == g(old.value)[j] and 0 <= _srt(calls).inv(j) and _srt(calls).inv(j) < len(g(value))
        ),
    }
    if par:
        out["parallel-array-moved-with-its-glyphs"] = lambda value, old, calls: len(value.PairSet) == len(old.value.PairSet) and forall(
            0, len(g(value)), lambda i: value.PairSet[i] == old.value.PairSet[_srt(calls).perm(i)]
        )
    return out


@contract("nanoemoji.reorder_glyphs.ReorderCoverage.apply", props=["C11"])
class reorder_coverage_with_parallel_any_length:
    """Unbounded: the rule object hands the coverage's glyph list and the array named by
    parallel_list_attr to _sort_by_gid (interpreted from source), so both move by one bijection."""

    args = {
        "self": Record("nanoemoji.reorder_glyphs.ReorderCoverage", parallel_list_attr=Const("PairSet"), coverage_attr=Const("Coverage")),
        "font": Obj(getGlyphID=_GID),
        "value": Obj(Coverage=Obj(glyphs=SeqOf(Str)), PairSet=SeqOf(Int)),
    }
    requires = [lambda value: len(value.PairSet) == len(value.Coverage.glyphs)]
    assumes = ["builtin sorted(): as for sort_by_gid_paired_any_length"]
    ensures = _cov_clauses(True)
    native = False


@contract("nanoemoji.reorder_glyphs.ReorderCoverage.apply", props=["C11"])
class reorder_coverage_alone_any_length:
    args = {
        "self": Record("nanoemoji.reorder_glyphs.ReorderCoverage", parallel_list_attr=Const(None), coverage_attr=Const("Coverage")),
        "font": Obj(getGlyphID=_GID),
        "value": Obj(Coverage=Obj(glyphs=SeqOf(Str))),
    }
    assumes = ["builtin sorted(): as for sort_by_gid_paired_any_length"]
    ensures = _cov_clauses(False)
    native = False


@contract("nanoemoji.reorder_glyphs.ReorderCoverage.apply", props=["C11"])
class reorder_coverage_mismatched_parallel_raises:
    """a parallel array of another length than the coverage is never silently mis-paired"""

    args = {
        "self": Record("nanoemoji.reorder_glyphs.ReorderCoverage", parallel_list_attr=Const("PairSet"), coverage_attr=Const("Coverage")),
        "font": Obj(getGlyphID=_GID),
        "value": Obj(Coverage=Obj(glyphs=SeqOf(Str)), PairSet=SeqOf(Int)),
    }
    raises = {"AssertionError": lambda value: len(value.PairSet) != len(value.Coverage.glyphs)}
    native = False


_COVT = Obj(glyphs=SeqOf(Str))


def _each_cov(value, f):
    return all(f(k, value.InputCoverage[k].glyphs) for k in range(len(value.InputCoverage)))


@contract("nanoemoji.reorder_glyphs.ReorderCoverage.apply", props=["C11"])
class reorder_coverage_list_any_length:
    """A subtable with a LIST of coverage tables (contextual formats 3): every one of them is
    sorted on its own.  The number of tables is finite (0..2), each table has any length."""

    scope = "finite: 0..2 coverage tables in the list; each table of any length"
    args = {
        "self": Record("nanoemoji.reorder_glyphs.ReorderCoverage", parallel_list_attr=Const(None), coverage_attr=Const("InputCoverage")),
        "font": Obj(getGlyphID=_GID),
        "value": OneOf(Obj(InputCoverage=ListOf()), Obj(InputCoverage=ListOf(_COVT)), Obj(InputCoverage=ListOf(_COVT, _COVT))),
    }
    assumes = ["builtin sorted(): as for sort_by_gid_paired_any_length"]
    ensures = {
        "tables-kept": lambda value, old: len(value.InputCoverage) == len(old.value.InputCoverage),
        "each-sorted-by-glyph-id": lambda value: _each_cov(value, lambda k, g: forall(0, len(g) - 1, lambda i: _gid(g[i]) <= _gid(g[i + 1]))),
        "each-keeps-its-own-glyphs": lambda value, old, calls: _each_cov(
            value,
            lambda k, g: len(g) == len(old.value.InputCoverage[k].glyphs)
            and forall(0, len(g), lambda i: g[i] == old.value.InputCoverage[k].glyphs[calls["builtins.sorted"][k].perm(i)])
            and forall(
                0,
                len(g),
                lambda j: g[calls["builtins.sorted"][k].inv(j)] == old.value.InputCoverage[k].glyphs[j]
                and 0 <= calls["builtins.sorted"][k].inv(j)
                and calls["builtins.sorted"][k].inv(j) < len(g),
            ),
        ),
    }
    native = False


@contract("nanoemoji.reorder_glyphs.ReorderCoverage.apply", props=["C11"])
class reorder_coverage_list_with_parallel_rejected:
    args = {
        "self": Record("nanoemoji.reorder_glyphs.ReorderCoverage", parallel_list_attr=Const("PairSet"), coverage_attr=Const("InputCoverage")),
        "font": Obj(getGlyphID=_GID),
        "value": Obj(InputCoverage=ListOf(_COVT), PairSet=SeqOf(Int)),
    }
    raises = {"AssertionError": lambda value: True}
    native = False


@contract("nanoemoji.reorder_glyphs._sort_by_gid", props=["C11"])
class sort_by_gid_native_crosscheck:
    """bounded: the real _sort_by_gid and ReorderList.apply under CPython on lists of 0..64
    glyphs (the unbounded contracts above have no native entry point: ghost permutation)"""

    bounded_only = True
    gen = H.gen_sort_case
    native_call = H.run_sort_by_gid
    n_quick = 40
    n_thorough = 600
    ensures = {
        "coverage-sorted-by-glyph-id": lambda result: result["gids"] == sorted(result["gids"]),
        "pairing-preserved": lambda result, paired: (not paired) or sorted(zip(result["glyphs"], result["parallel"])) == result["old_pairs"],
        "same-glyphs": lambda result, names: sorted(result["glyphs"]) == sorted(names),
        "records-moved-whole-and-ordered": lambda result, names, gids: sorted(result["records"]) == result["old_pairs"]
        and [dict(zip(names, gids))[g] for g, _ in result["records"]] == sorted(gids),
    }


@contract("nanoemoji.reorder_glyphs.reorder_glyphs", props=["C11"])
class rules_against_the_spec:
    bounded_only = True
    gen = lambda rng: {}
    native_call = lambda: {"missing": H.rules_missing(), "illformed": H.rules_illformed(), "uncovered": H.otdata_coverage_without_rule()}
    n_quick = 1
    n_thorough = 1
    ensures = {
        # exhaustive finite enumerations (complete, not sampled)
        "rules-complete": lambda result: result["missing"] == [],
        "rules-wellformed": lambda result: result["illformed"] == [],
        "every-coverage-field-in-otData-has-a-rule": lambda result: result["uncovered"] == [],
    }


@contract("nanoemoji.reorder_glyphs.reorder_glyphs", props=["C11"])
class reorder_keeps_name_level_meaning:
    bounded_only = True
    gen = H.gen_order
    native_call = H.reorder_and_reload
    n_quick = 25
    n_thorough = 400
    ensures = {
        # cmap, metrics, outlines and what every GSUB/GPOS/GDEF lookup does to each named glyph
        "same-facts-after-save-and-reload": lambda result: H.fact_diff(result["before"], result["after"]) == [],
        "glyph-order-applied": lambda new_order, result: result["order"] == list(new_order),
        "coverage-tables-sorted": lambda result: result["unsorted"] == [],
    }


@contract("nanoemoji.reorder_glyphs.reorder_glyphs", props=["C11", "C17"])
class reorder_rejects_bad_orders:
    bounded_only = True
    gen = H.gen_bad_order
    native_call = H.reorder_raises
    n_quick = 10
    n_thorough = 30
    ensures = {"raises-ValueError": lambda result: result == "ValueError"}
