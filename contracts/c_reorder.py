"""reorder_glyphs.py -- C11."""
from vlib import *
import reorder_helpers as H

_GID = Const(lambda g: ufn("glyph_id", "int", g))


def _pairs(glyphs, parallel):
    return [(g, e) for (g, e) in zip(glyphs, parallel)]


def _sorted_by_gid(glyphs):
    return all(ufn("glyph_id", "int", glyphs[i]) <= ufn("glyph_id", "int", glyphs[i + 1]) for i in range(len(glyphs) - 1))


def _perm_of(new, old):
    """same multiset (lists of known length)"""
    return len(new) == len(old) and all(sum(1 if x == y else 0 for y in new) == sum(1 if x == y else 0 for y in old) for x in old)


def _lists(n):
    return ListOf(*([Str] * n)), ListOf(*([Int] * n))


@contract("nanoemoji.reorder_glyphs._sort_by_gid", props=["C11"])
class sort_by_gid_paired:
    scope = "finite: coverage of 1..3 glyphs with a parallel list of the same length; names, glyph ids and entries unconstrained"
    args = {
        "get_glyph_id": _GID,
        "glyphs": OneOf(ListOf(Str), ListOf(Str, Str), ListOf(Str, Str, Str)),
        "parallel_list": OneOf(ListOf(Int), ListOf(Int, Int), ListOf(Int, Int, Int)),
    }
    requires = [lambda glyphs, parallel_list: len(glyphs) == len(parallel_list)]
    ensures = {
        "coverage-sorted-by-glyph-id": lambda glyphs: _sorted_by_gid(glyphs),
        # arrays indexed by coverage stay paired with their glyphs
        "pairing-preserved": lambda glyphs, parallel_list, old: _perm_of(_pairs(glyphs, parallel_list), _pairs(old.glyphs, old.parallel_list)),
    }
    native = False


@contract("nanoemoji.reorder_glyphs._sort_by_gid", props=["C11"])
class sort_by_gid_alone:
    scope = "finite: coverage of 0..3 glyphs, no parallel list"
    args = {
        "get_glyph_id": _GID,
        "glyphs": OneOf(ListOf(), ListOf(Str), ListOf(Str, Str), ListOf(Str, Str, Str)),
        "parallel_list": Const(None),
    }
    ensures = {
        "coverage-sorted-by-glyph-id": lambda glyphs: _sorted_by_gid(glyphs),
        "same-glyphs": lambda glyphs, old: _perm_of(glyphs, old.glyphs),
    }
    native = False


@contract("nanoemoji.reorder_glyphs.reorder_glyphs", props=["C11"])
class rules_against_the_spec:
    bounded_only = True
    gen = lambda rng: {}
    native_call = lambda: {"missing": H.rules_missing(), "illformed": H.rules_illformed(), "uncovered": H.otdata_coverage_without_rule()}
    n_quick = 1
    n_thorough = 1
    ensures = {
        # exhaustive finite enumerations (complete, not sampled)
        "rules-complete": lambda result: result["missing"] == [],
        "rules-wellformed": lambda result: result["illformed"] == [],
        "every-coverage-field-in-otData-has-a-rule": lambda result: result["uncovered"] == [],
    }


@contract("nanoemoji.reorder_glyphs.reorder_glyphs", props=["C11"])
class reorder_keeps_name_level_meaning:
    bounded_only = True
    gen = H.gen_order
    native_call = H.reorder_and_reload
    n_quick = 25
    n_thorough = 400
    ensures = {
        # cmap, metrics, outlines and what every GSUB/GPOS/GDEF lookup does to each named glyph
        "same-facts-after-save-and-reload": lambda result: H.fact_diff(result["before"], result["after"]) == [],
        "glyph-order-applied": lambda new_order, result: result["order"] == list(new_order),
        "coverage-tables-sorted": lambda result: result["unsorted"] == [],
    }


@contract("nanoemoji.reorder_glyphs.reorder_glyphs", props=["C11", "C17"])
class reorder_rejects_bad_orders:
    bounded_only = True
    gen = H.gen_bad_order
    native_call = H.reorder_raises
    n_quick = 10
    n_thorough = 30
    ensures = {"raises-ValueError": lambda result: result == "ValueError"}
