"""colr_to_svg.py -- C13."""
from vlib import *
import spec
from c_common import AFF, RECT


@contract("nanoemoji.colr_to_svg.map_font_space_to_viewbox", props=["C13"])
class map_font_space_to_viewbox:
    args = {"view_box": RECT, "glyph_region": RECT}
    requires = [
        lambda view_box, glyph_region: view_box.h != 0
        and glyph_region.h != 0
        and view_box.w != 0
        # the viewBox -> font map must be invertible: (em/vb.h)^2 above picosvg's epsilon
        and (glyph_region.h / view_box.h) * (glyph_region.h / view_box.h) > 2 ** -52
    ]
    raises = {"AssertionError": lambda glyph_region: glyph_region.y > 0 or -(glyph_region.h + glyph_region.y) > 0}
    ensures = {
        # inverse of the C01 placement: the em box [0, adv] x [descender, ascender] lands on
        # the viewBox (top edge <- ascender, bottom edge <- descender, centred)
        "top-centre": lambda view_box, glyph_region, result: spec.pt(spec.aff(result), (glyph_region.w / 2, -glyph_region.y))
        == (view_box.x + view_box.w / 2, view_box.y),
        "bottom-centre": lambda view_box, glyph_region, result: spec.pt(
            spec.aff(result), (glyph_region.w / 2, -(glyph_region.h + glyph_region.y))
        )
        == (view_box.x + view_box.w / 2, view_box.y + view_box.h),
        "uniform": lambda view_box, glyph_region, result: spec.pt(
            spec.aff(result), (glyph_region.w / 2 + glyph_region.h, -glyph_region.y)
        )
        == (view_box.x + view_box.w / 2 + view_box.h, view_box.y),
    }
    native = False


def _fmt(t):
    return ufn("svg_matrix_string", "str", spec.aff(t))


@contract("nanoemoji.svg._svg_matrix", props=["C13", "C02"])
class svg_matrix:
    # string formatting (picosvg ntos / tostring): outside the proved subset; what matters
    # to callers is that it is a function of the 3-digit rounded affine
    assumed = True
    args = {"transform": AFF}
    returns = Str
    ensures = {"function-of-the-affine": lambda transform, result: result == ufn("svg_matrix_string", "str", spec.aff(transform))}
    native = False
    note = "formats the affine rounded to 3 digits (picosvg Affine2D.round/tostring)"


@contract("nanoemoji.colr_to_svg._apply_transform", props=["C13"])
class apply_transform:
    args = {"transform": AFF, "font_to_vbox": AFF, "el": Obj(attrib=Const({}))}
    requires = [lambda font_to_vbox: abs(spec.det(spec.aff(font_to_vbox))) > 2 ** -52]
    ensures = {
        # the accumulated font-space transform T is written as V T V^-1 (V = font -> viewBox),
        # so that with d = V(outline) the element draws V(T(outline)) ...
        "conjugated": lambda transform, font_to_vbox, el, calls: ("transform" not in el.attrib) or (
            el.attrib["transform"]
            == ufn(
                "svg_matrix_string",
                "str",
                spec.ltr(
                    spec.aff(calls["picosvg.svg_transform.Affine2D.inverse"][0].result), spec.aff(transform), spec.aff(font_to_vbox)
                ),
            )
            and spec.aff(calls["picosvg.svg_transform.Affine2D.inverse"][0].args.self) == spec.aff(font_to_vbox)
        ),
        "attribute-iff-not-identity": lambda transform, el: iff(spec.aff(transform) != spec.ID, "transform" in el.attrib),
        # ... and the transform is reset so that it is not applied to the gradient again
        "reset": lambda result: spec.aff(result) == spec.ID,
    }
    native = False


_PAL = SeqOf(Obj(red=Int, green=Int, blue=Int, alpha=Int))


@contract("nanoemoji.colr_to_svg._color", props=["C13", "C15"])
class color_of_palette_entry:
    args = {
        "ttfont": OneOf(Const({"CPAL": Obj(palettes=ListOf(_PAL))}), Const({"CPAL": Obj(palettes=ListOf(_PAL, _PAL))})),
        "palette_index": Int,
        "alpha": Real,
    }
    requires = [lambda palette_index: palette_index >= 0]
    raises = {"IndexError": lambda ttfont, palette_index: palette_index != 0xFFFF and palette_index >= len(ttfont["CPAL"].palettes[0])}
    ensures = {
        # foreground entries become currentColor (sentinel) carrying the paint's alpha
        "foreground": lambda palette_index, alpha, result: implies(
            palette_index == 0xFFFF, (result.red, result.green, result.blue) == (-1, -1, -1) and result.alpha == alpha
        ),
        "palette-colour": lambda ttfont, palette_index, alpha, result: implies(
            palette_index != 0xFFFF,
            (result.red, result.green, result.blue)
            == (ttfont["CPAL"].palettes[0][palette_index].red, ttfont["CPAL"].palettes[0][palette_index].green, ttfont["CPAL"].palettes[0][palette_index].blue)
            # CPAL alpha (COLRv0) times the paint alpha (COLRv1)
            and result.alpha == alpha * ttfont["CPAL"].palettes[0][palette_index].alpha / 255,
        ),
        # multi-palette fonts: keep the index so that the fill becomes var(--colorN, colour)
        "palette-index-kept-iff-multi": lambda ttfont, palette_index, result: implies(
            palette_index != 0xFFFF,
            (result.palette_index == palette_index) if len(ttfont["CPAL"].palettes) > 1 else isnone(result.palette_index),
        ),
    }
    native = False
