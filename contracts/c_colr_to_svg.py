"""colr_to_svg.py -- C13."""
from vlib import *
import spec
from c_common import AFF, RECT
from math import hypot


@contract("nanoemoji.colr_to_svg.map_font_space_to_viewbox", props=["C13"])
class map_font_space_to_viewbox:
    args = {"view_box": RECT, "glyph_region": RECT}
    requires = [
        lambda view_box, glyph_region: view_box.h != 0
        and glyph_region.h != 0
        and view_box.w != 0
        # the viewBox -> font map must be invertible: (em/vb.h)^2 above picosvg's epsilon
        and (glyph_region.h / view_box.h) * (glyph_region.h / view_box.h) > 2 ** -52
    ]
    raises = {"AssertionError": lambda glyph_region: glyph_region.y > 0 or -(glyph_region.h + glyph_region.y) > 0}
    ensures = {
        # inverse of the C01 placement: the em box [0, adv] x [descender, ascender] lands on
        # the viewBox (top edge <- ascender, bottom edge <- descender, centred)
        "top-centre": lambda view_box, glyph_region, result: spec.pt(spec.aff(result), (glyph_region.w / 2, -glyph_region.y))
        == (view_box.x + view_box.w / 2, view_box.y),
        "bottom-centre": lambda view_box, glyph_region, result: spec.pt(
            spec.aff(result), (glyph_region.w / 2, -(glyph_region.h + glyph_region.y))
        )
        == (view_box.x + view_box.w / 2, view_box.y + view_box.h),
        "uniform": lambda view_box, glyph_region, result: spec.pt(
            spec.aff(result), (glyph_region.w / 2 + glyph_region.h, -glyph_region.y)
        )
        == (view_box.x + view_box.w / 2 + view_box.h, view_box.y),
    }
    native = False


def _fmt(t):
    return ufn("svg_matrix_string", "str", spec.aff(t))


@contract("nanoemoji.svg._svg_matrix", props=["C13", "C02"])
class svg_matrix:
    # string formatting (picosvg ntos / tostring): outside the proved subset; what matters
    # to callers is that it is a function of the 3-digit rounded affine
    assumed = True
    args = {"transform": AFF}
    returns = Str
    ensures = {"function-of-the-affine": lambda transform, result: result == ufn("svg_matrix_string", "str", spec.aff(transform))}
    native = False
    note = "formats the affine rounded to 3 digits (picosvg Affine2D.round/tostring); conformance-checked natively by c_conformance.svg_matrix_conformance"


@contract("nanoemoji.colr_to_svg._apply_transform", props=["C13"])
class apply_transform:
    args = {"transform": AFF, "font_to_vbox": AFF, "el": Obj(attrib=Const({}))}
    requires = [lambda font_to_vbox: abs(spec.det(spec.aff(font_to_vbox))) > 2 ** -52]
    ensures = {
        # the accumulated font-space transform T is written as V T V^-1 (V = font -> viewBox),
        # so that with d = V(outline) the element draws V(T(outline)) ...
        "conjugated": lambda transform, font_to_vbox, el, calls: ("transform" not in el.attrib) or (
            el.attrib["transform"]
            == ufn(
                "svg_matrix_string",
                "str",
                spec.ltr(
                    spec.aff(calls["picosvg.svg_transform.Affine2D.inverse"][0].result), spec.aff(transform), spec.aff(font_to_vbox)
                ),
            )
            and spec.aff(calls["picosvg.svg_transform.Affine2D.inverse"][0].args.self) == spec.aff(font_to_vbox)
        ),
        "attribute-iff-not-identity": lambda transform, el: iff(spec.aff(transform) != spec.ID, "transform" in el.attrib),
        # ... and the transform is reset so that it is not applied to the gradient again
        "reset": lambda result: spec.aff(result) == spec.ID,
    }
    native = False


_PAL = SeqOf(Obj(red=Int, green=Int, blue=Int, alpha=Int))


@contract("nanoemoji.colr_to_svg._color", props=["C13", "C15"])
class color_of_palette_entry:
    args = {
        "ttfont": OneOf(Const({"CPAL": Obj(palettes=ListOf(_PAL))}), Const({"CPAL": Obj(palettes=ListOf(_PAL, _PAL))})),
        "palette_index": Int,
        "alpha": Real,
    }
    requires = [lambda palette_index: palette_index >= 0]
    raises = {"IndexError": lambda ttfont, palette_index: palette_index != 0xFFFF and palette_index >= len(ttfont["CPAL"].palettes[0])}
    ensures = {
        # foreground entries become currentColor (sentinel) carrying the paint's alpha
        "foreground": lambda palette_index, alpha, result: implies(
            palette_index == 0xFFFF, (result.red, result.green, result.blue) == (-1, -1, -1) and result.alpha == alpha
        ),
        "palette-colour": lambda ttfont, palette_index, alpha, result: implies(
            palette_index != 0xFFFF,
            (result.red, result.green, result.blue)
            == (ttfont["CPAL"].palettes[0][palette_index].red, ttfont["CPAL"].palettes[0][palette_index].green, ttfont["CPAL"].palettes[0][palette_index].blue)
            # CPAL alpha (COLRv0) times the paint alpha (COLRv1)
            and result.alpha == alpha * ttfont["CPAL"].palettes[0][palette_index].alpha / 255,
        ),
        # multi-palette fonts: keep the index so that the fill becomes var(--colorN, colour)
        "palette-index-kept-iff-multi": lambda ttfont, palette_index, result: implies(
            palette_index != 0xFFFF,
            (result.palette_index == palette_index) if len(ttfont["CPAL"].palettes) > 1 else isnone(result.palette_index),
        ),
    }
    native = False


@contract("nanoemoji.paint.is_transform", props=["C13", "C02"])
class is_transform_formats:
    args = {"paint_or_format": Int}
    ensures = {
        # COLR paint formats 12..31 are the (variable and non-variable) transform paints
        "range": lambda paint_or_format, result: result == (12 <= paint_or_format and paint_or_format <= 31),
    }


# ---- _colr_v1_paint_to_svg: every transform on the way to a leaf is applied exactly once ----
#
# The function walks a COLR paint graph and carries a *pending* font-space transform.  At each
# level it may (a) write the pending transform on a new SVG element -- as V T V^-1, which
# makes the element draw its content through T -- and (b) pass a pending transform to the
# paints below.  C13 needs, at every level,
#
#        written(level)  o  passed-down   ==   pending-in  o  own-transform-of-this-paint
#
# (own transform applied first, COLR semantics); by induction over the graph every leaf is
# then drawn through the product of the transforms on its path, once.

OTP = Opaque("otPaint")
_SELF = "nanoemoji.colr_to_svg._colr_v1_paint_to_svg"


@contract("nanoemoji.colr_to_svg._apply_solid_ot_paint", props=["C13"])
class apply_solid_ot_paint_stub:
    assumed = True
    args = {"svg_path": Opaque("any"), "ttfont": Opaque("any"), "ot_paint": Opaque("any")}
    returns = Const(None)
    ensures = {}
    native = False
    note = "summary with an empty postcondition (only the call's arguments are used); the function itself is under the contract apply_solid_ot_paint"


@contract("nanoemoji.colr_to_svg._apply_gradient_ot_paint", props=["C13"])
class apply_gradient_ot_paint_stub:
    # modular summary used by _colr_v1_paint_to_svg: empty postcondition, i.e. nothing is
    # assumed about the call (the clauses there only speak about its arguments); the function
    # itself is under the contracts apply_gradient_ot_paint_linear / _radial below
    assumed = True
    args = {
        "svg_defs": Opaque("any"), "svg_path": Opaque("any"), "ttfont": Opaque("any"), "font_to_vbox": AFF,
        "ot_paint": Opaque("any"), "reuse_cache": Opaque("any"), "transform": AFF,
    }
    returns = Const(None)
    ensures = {}
    native = False
    note = "summary with an empty postcondition (only the call's arguments are used); the function itself is under the contracts apply_gradient_ot_paint_linear / _radial"


@contract("nanoemoji.colr_to_svg._draw_svg_path", props=["C13"])
class draw_svg_path_stub:
    assumed = True
    args = {"svg_path": Opaque("any"), "glyph_set": Opaque("any"), "glyph_name": Str, "font_to_vbox": AFF}
    returns = Const(None)
    ensures = {}
    native = False
    note = "draws glyph_name's outline through font_to_vbox into the path's d (bounded tier)"


@contract("nanoemoji.paint.Paint.from_ot", props=["C13"])
class paint_from_ot_stub:
    assumed = True
    args = {"cls": Opaque("any"), "ot_paint": Opaque("any")}
    returns = lambda: Instance("spec.GhostTransformPaint", m=AFF)
    ensures = {}
    native = False
    note = "a transform paint read back from its otTables form has SOME affine; WHICH one (the field mapping, per transform format) is the bounded conformance contract c_conformance.paint_from_ot_transform_conformance against fontTools' Paint.getTransform"


def _pending(t):
    return spec.aff(t)


def _written_ok(el, transform, font_to_vbox, calls):
    """`el` carries the pending transform T as V^-1 ; T ; V (left to right), or nothing if T = I"""
    return iff(spec.aff(transform) != spec.ID, "transform" in el.attrib) and (
        "transform" not in el.attrib
        or el.attrib["transform"]
        == ufn(
            "svg_matrix_string",
            "str",
            spec.ltr(spec.aff(calls["picosvg.svg_transform.Affine2D.inverse"][0].result), spec.aff(transform), spec.aff(font_to_vbox)),
        )
    )


_COLR = lambda **k: Const({"COLR": Obj(table=Obj(**k))})
_BASE = _COLR(
    LayerList=Obj(Paint=ListOf(OTP, OTP, OTP)),
    BaseGlyphList=Obj(BaseGlyphPaintRecord=ListOf(Obj(BaseGlyph=Str, Paint=OTP), Obj(BaseGlyph=Str, Paint=OTP))),
)
_COMMON = {
    "ttfont": _BASE,
    "glyph_set": Opaque("any"),
    "parent_el": Elem("g"),
    "svg_defs": Elem("defs"),
    "font_to_vbox": AFF,
    "reuse_cache": Opaque("any"),
    "transform": AFF,
}
_REQ = [lambda font_to_vbox: abs(spec.det(spec.aff(font_to_vbox))) > 2 ** -52]


def _rec(calls, i=0):
    return calls[_SELF][i].args


@contract(_SELF, props=["C13"])
class paint_to_svg_leaf_paints:
    """PaintSolid / gradients: the pending transform goes to the gradient, nothing is written"""

    args = dict(_COMMON, ot_paint=OneOf(Obj(Format=Const(2)), Obj(Format=Const(4)), Obj(Format=Const(6))))
    requires = _REQ
    # the recursion hypothesis at call sites: nothing is assumed about a recursive call (the
    # paint graph is a DAG, so the induction over it is well-founded)
    returns = Const(None)
    modular_ensures = {}
    assumes = (
        "recursion hypothesis: a recursive call is summarised by this function's own contracts; the induction is over the paint graph, which is assumed acyclic (termination of the recursion is not proved)",
        "the per-level accounting clauses imply the per-leaf statement by induction over the graph (argument in the contract module's comment, not machine-checked)",
    )
    ensures = {
        "gradient-gets-the-pending-transform": lambda ot_paint, transform, font_to_vbox, calls: ot_paint.Format == 2
        or (
            spec.aff(calls["nanoemoji.colr_to_svg._apply_gradient_ot_paint"][0].args.transform) == spec.aff(transform)
            and spec.aff(calls["nanoemoji.colr_to_svg._apply_gradient_ot_paint"][0].args.font_to_vbox) == spec.aff(font_to_vbox)
        ),
        "nothing-added": lambda parent_el: len(parent_el.children) == 0 and "transform" not in parent_el.attrib,
    }
    native = False


# `fill_below_transforms(p)`: p is a solid or gradient paint, directly or below transform
# paints -- what a <path> can carry as its fill.  `_is_fill` is summarised by this ghost
# predicate at its call site; that the real loop computes it is checked on paint chains of
# bounded depth (second contract).
def _fbt(p):
    return ufn("fill_below_transforms", "bool", p)


@contract("nanoemoji.colr_to_svg._is_fill", props=["C13"])
class is_fill_summary:
    assumed = True
    args = {"ot_paint": OTP}
    returns = Bool
    ensures = {"the-ghost-predicate": lambda ot_paint, result: result == _fbt(ot_paint)}
    native = False
    note = "modular summary of _is_fill by the ghost predicate fill_below_transforms; the real function is under the contract is_fill_unwraps_transforms (chains of bounded depth)"


_LEAF = lambda: Obj(Format=IntRange(1, 11))
_LEAF32 = lambda: Obj(Format=Const(32))


@contract("nanoemoji.colr_to_svg._is_fill", props=["C13"])
class is_fill_unwraps_transforms:
    args = {
        "ot_paint": OneOf(
            _LEAF(),
            _LEAF32(),
            Obj(Format=IntRange(12, 31), Paint=_LEAF()),
            Obj(Format=IntRange(12, 31), Paint=_LEAF32()),
            Obj(Format=IntRange(12, 31), Paint=Obj(Format=IntRange(12, 31), Paint=_LEAF())),
            Obj(Format=IntRange(12, 31), Paint=Obj(Format=IntRange(12, 31), Paint=Obj(Format=IntRange(12, 31), Paint=_LEAF()))),
        )
    }
    scope = "finite: chains of at most three transform paints above a non-transform paint"
    ensures = {
        "format-of-the-first-non-transform-paint": lambda ot_paint, result: result == (_innermost(ot_paint).Format in (2, 4, 6)),
    }
    native = False


def _innermost(p):
    # in the shapes above a paint has a child exactly when its format is a transform format
    while hasattr(p, "Paint"):
        p = p.Paint
    return p


@contract(_SELF, props=["C13"])
class paint_to_svg_glyph:
    """PaintGlyph over a fill: a <path> carrying the pending transform; its fill is reached
    with identity"""

    args = dict(_COMMON, ot_paint=Obj(Format=Const(10), Glyph=Str, Paint=OTP))
    requires = _REQ + [lambda ot_paint: _fbt(ot_paint.Paint)]
    ensures = {
        "one-path-under-the-parent": lambda parent_el: len(parent_el.children) == 1 and parent_el.children[0].tag == "path",
        "path-carries-the-pending-transform": lambda parent_el, transform, font_to_vbox, calls: _written_ok(parent_el.children[0], transform, font_to_vbox, calls),
        # written o passed == pending  (passed = I because the path's transform already
        # affects its gradient, issue #334)
        "accounting": lambda parent_el, ot_paint, calls: len(calls[_SELF]) == 1
        and _rec(calls).parent_el is parent_el.children[0]
        and same(_rec(calls).ot_paint, ot_paint.Paint)
        and spec.aff(_rec(calls).transform) == spec.ID,
        "outline-through-font-to-viewbox": lambda parent_el, ot_paint, font_to_vbox, calls: calls["nanoemoji.colr_to_svg._draw_svg_path"][0].args.svg_path
        is parent_el.children[0]
        and calls["nanoemoji.colr_to_svg._draw_svg_path"][0].args.glyph_name == ot_paint.Glyph
        and spec.aff(calls["nanoemoji.colr_to_svg._draw_svg_path"][0].args.font_to_vbox) == spec.aff(font_to_vbox),
    }
    native = False


def _draw_call(calls):
    return calls["nanoemoji.colr_to_svg._draw_svg_path"][0].args


@contract(_SELF, props=["C13"])
class paint_to_svg_glyph_clips_graph:
    """PaintGlyph over anything but a fill (layers, another glyph, a colour-glyph reference, a
    composite): the outline clips that graph.  A <path> cannot hold child graphics, so the
    statement's "same image" needs a group clipped by the outline: the group carries the
    pending transform, the clip path is the outline through font_to_vbox in the group's user
    space, and the graph below is reached with identity."""

    args = dict(_COMMON, ot_paint=Obj(Format=Const(10), Glyph=Str, Paint=OTP))
    requires = _REQ + [lambda ot_paint: not _fbt(ot_paint.Paint)]
    ensures = {
        "no-graphics-inside-a-path": lambda parent_el: all(ch.tag != "path" or len(ch.children) == 0 for ch in parent_el.children),
        "one-clipped-group-under-the-parent": lambda parent_el: len(parent_el.children) == 1 and parent_el.children[0].tag == "g" and "clip-path" in parent_el.children[0].attrib,
        "group-carries-the-pending-transform": lambda parent_el, transform, font_to_vbox, calls: _written_ok(parent_el.children[0], transform, font_to_vbox, calls),
        "clip-path-defined-once-and-referenced": lambda parent_el, svg_defs: len(svg_defs.children) == 1
        and svg_defs.children[0].tag == "clipPath"
        and parent_el.children[0].attrib["clip-path"] == "url(#" + svg_defs.children[0].attrib["id"] + ")"
        and len(svg_defs.children[0].children) == 1
        and svg_defs.children[0].children[0].tag == "path"
        and "transform" not in svg_defs.children[0].attrib
        and "transform" not in svg_defs.children[0].children[0].attrib,
        "clip-outline-through-font-to-viewbox": lambda svg_defs, ot_paint, font_to_vbox, calls: _draw_call(calls).svg_path is svg_defs.children[0].children[0]
        and _draw_call(calls).glyph_name == ot_paint.Glyph
        and spec.aff(_draw_call(calls).font_to_vbox) == spec.aff(font_to_vbox),
        "accounting": lambda parent_el, ot_paint, calls: len(calls[_SELF]) == 1
        and _rec(calls).parent_el is parent_el.children[0]
        and same(_rec(calls).ot_paint, ot_paint.Paint)
        and spec.aff(_rec(calls).transform) == spec.ID,
    }
    native = False


@contract(_SELF, props=["C13"])
class paint_to_svg_transform:
    """transform paints: nothing written, own affine applied before the pending one"""

    args = dict(_COMMON, ot_paint=OneOf(*[Obj(Format=Const(f), Paint=OTP) for f in (12, 14, 16, 18, 20, 22, 24, 26, 28, 30)]))
    requires = _REQ
    ensures = {
        "accounting": lambda parent_el, ot_paint, transform, calls: len(calls[_SELF]) == 1
        and _rec(calls).parent_el is parent_el
        and same(_rec(calls).ot_paint, ot_paint.Paint)
        and spec.aff(_rec(calls).transform) == spec.mul(spec.aff(transform), spec.aff(calls["nanoemoji.paint.Paint.from_ot"][0].result.m)),
        "nothing-added": lambda parent_el: len(parent_el.children) == 0 and "transform" not in parent_el.attrib,
    }
    native = False


@contract(_SELF, props=["C13"])
class paint_to_svg_layers:
    """PaintColrLayers: each layer of the run, in order, with the pending transform"""

    scope = "finite: a layer list of 3 paints and the runs [0,2), [1,3), [0,3), [2,2)"
    args = dict(
        _COMMON,
        ot_paint=OneOf(
            Obj(Format=Const(1), FirstLayerIndex=Const(0), NumLayers=Const(2)),
            Obj(Format=Const(1), FirstLayerIndex=Const(1), NumLayers=Const(2)),
            Obj(Format=Const(1), FirstLayerIndex=Const(0), NumLayers=Const(3)),
            Obj(Format=Const(1), FirstLayerIndex=Const(2), NumLayers=Const(0)),
        ),
    )
    requires = _REQ
    ensures = {
        "every-layer-in-order-with-the-pending-transform": lambda ttfont, parent_el, ot_paint, transform, calls: (len(calls[_SELF]) if _SELF in calls else 0) == ot_paint.NumLayers
        and all(
            _rec(calls, i).parent_el is parent_el
            and same(_rec(calls, i).ot_paint, ttfont["COLR"].table.LayerList.Paint[ot_paint.FirstLayerIndex + i])
            and spec.aff(_rec(calls, i).transform) == spec.aff(transform)
            for i in range(0, ot_paint.NumLayers)
        ),
        "nothing-added": lambda parent_el: len(parent_el.children) == 0 and "transform" not in parent_el.attrib,
    }
    native = False


@contract(_SELF, props=["C13"])
class paint_to_svg_colr_glyph:
    """PaintColrGlyph: the referenced glyph's paint; a pending transform is written on a <g>
    and then NOT passed down again"""

    args = dict(_COMMON, ot_paint=Obj(Format=Const(11), Glyph=Str))
    requires = _REQ + [
        lambda ttfont, ot_paint: (ttfont["COLR"].table.BaseGlyphList.BaseGlyphPaintRecord[0].BaseGlyph == ot_paint.Glyph)
        != (ttfont["COLR"].table.BaseGlyphList.BaseGlyphPaintRecord[1].BaseGlyph == ot_paint.Glyph)
    ]
    ensures = {
        "group-iff-pending": lambda parent_el, transform: iff(spec.aff(transform) != spec.ID, len(parent_el.children) == 1)
        and (len(parent_el.children) == 0 or parent_el.children[0].tag == "g"),
        "group-carries-the-pending-transform": lambda parent_el, transform, font_to_vbox, calls: len(parent_el.children) == 0
        or _written_ok(parent_el.children[0], transform, font_to_vbox, calls),
        # written o passed == pending: either (T on the <g>, I passed) or (nothing, T = I passed)
        "accounting": lambda parent_el, transform, calls: len(calls[_SELF]) == 1
        and (
            (_rec(calls).parent_el is parent_el.children[0] and spec.aff(_rec(calls).transform) == spec.ID)
            if len(parent_el.children) == 1
            else (_rec(calls).parent_el is parent_el and spec.aff(_rec(calls).transform) == spec.aff(transform))
        ),
        "the-referenced-glyphs-paint": lambda ttfont, ot_paint, calls: any(
            r.BaseGlyph == ot_paint.Glyph and same(_rec(calls).ot_paint, r.Paint) for r in ttfont["COLR"].table.BaseGlyphList.BaseGlyphPaintRecord
        ),
    }
    native = False


_SRC_IN = EnumConst("fontTools.ttLib.tables.otTables.CompositeMode", "SRC_IN")
_SRC_OVER = EnumConst("fontTools.ttLib.tables.otTables.CompositeMode", "SRC_OVER")
_PAL1 = SeqOf(Obj(red=Int, green=Int, blue=Int, alpha=Int))


@contract(_SELF, props=["C13"])
class paint_to_svg_group_opacity:
    """PaintComposite(SRC_IN, source, solid black with alpha): a <g opacity=alpha> holding the
    source; any other composite is announced with a warning (not silently mis-drawn)"""

    args = dict(
        _COMMON,
        ttfont=Const(
            {
                "COLR": Obj(table=Obj(LayerList=Obj(Paint=ListOf(OTP)), BaseGlyphList=Obj(BaseGlyphPaintRecord=ListOf(Obj(BaseGlyph=Str, Paint=OTP))))),
                "CPAL": Obj(palettes=ListOf(_PAL1)),
            }
        ),
        ot_paint=OneOf(
            Obj(Format=Const(32), CompositeMode=_SRC_IN, SourcePaint=OTP, BackdropPaint=Obj(Format=Const(2), PaletteIndex=Int, Alpha=Real)),
            Obj(Format=Const(32), CompositeMode=_SRC_IN, SourcePaint=OTP, BackdropPaint=Obj(Format=Const(4))),
            Obj(Format=Const(32), CompositeMode=_SRC_OVER, SourcePaint=OTP, BackdropPaint=Obj(Format=Const(2), PaletteIndex=Int, Alpha=Real)),
        ),
    )
    requires = _REQ + [
        lambda ttfont, ot_paint: ot_paint.BackdropPaint.Format != 2
        or (ot_paint.BackdropPaint.PaletteIndex >= 0 and (ot_paint.BackdropPaint.PaletteIndex == 0xFFFF or ot_paint.BackdropPaint.PaletteIndex < len(ttfont["CPAL"].palettes[0])))
    ]
    ensures = {
        # the pending transform is handed on unchanged, to exactly one sub-paint
        "accounting": lambda transform, calls: len(calls[_SELF]) == 1 and spec.aff(_rec(calls).transform) == spec.aff(transform),
        # group opacity: exactly when the backdrop is a black solid (any alpha) under SRC_IN
        "group-opacity-iff-black-solid-src-in": lambda ttfont, parent_el, ot_paint, calls: iff(
            len(parent_el.children) == 1,
            ot_paint.CompositeMode == _src_in()
            and ot_paint.BackdropPaint.Format == 2
            and _is_black(ttfont, ot_paint.BackdropPaint.PaletteIndex),
        ),
        # anything else is announced, and only the backdrop is drawn
        "otherwise-a-warning": lambda parent_el, ot_paint, calls: len(parent_el.children) == 1
        or ("absl.logging.warning" in calls and same(_rec(calls).ot_paint, ot_paint.BackdropPaint)),
        "group-holds-the-source": lambda parent_el, ot_paint, calls: len(parent_el.children) == 0
        or (
            parent_el.children[0].tag == "g"
            and "opacity" in parent_el.children[0].attrib
            and _rec(calls).parent_el is parent_el.children[0]
            and same(_rec(calls).ot_paint, ot_paint.SourcePaint)
        ),
    }
    native = False


def _src_in():
    from fontTools.ttLib.tables.otTables import CompositeMode

    return CompositeMode.SRC_IN


def _is_black(ttfont, idx):
    # foreground (0xFFFF) maps to the currentColor sentinel (-1,-1,-1): not black
    pal = ttfont["CPAL"].palettes[0]
    return idx != 0xFFFF and (pal[idx].red, pal[idx].green, pal[idx].blue) == (0, 0, 0)


# ---- _apply_gradient_ot_paint: gradient geometry goes through pending transform and V --------

_AGOP = "nanoemoji.colr_to_svg._apply_gradient_ot_paint"
_AGP2 = "nanoemoji.svg._apply_gradient_paint"
_DEC = "nanoemoji.paint._decompose_uniform_transform"
_STOP = Obj(StopOffset=Real, PaletteIndex=Int, Alpha=Real)
_CL = lambda ext: Obj(ColorStop=ListOf(_STOP, _STOP), Extend=Const(ext))
_CPAL1 = Const({"CPAL": Obj(palettes=ListOf(SeqOf(Obj(red=Int, green=Int, blue=Int, alpha=Int))))})


def _stops_ok(ttfont, ot_paint):
    pal = ttfont["CPAL"].palettes[0]
    return all(s.PaletteIndex >= 0 and (s.PaletteIndex == 0xFFFF or s.PaletteIndex < len(pal)) for s in ot_paint.ColorLine.ColorStop)


def _stop_colour(ttfont, s):
    pal = ttfont["CPAL"].palettes[0]
    # foreground -> currentColor sentinel (-1,-1,-1) carrying the stop's alpha
    return (
        (-1, -1, -1, s.Alpha)
        if s.PaletteIndex == 0xFFFF
        else (pal[s.PaletteIndex].red, pal[s.PaletteIndex].green, pal[s.PaletteIndex].blue, s.Alpha * pal[s.PaletteIndex].alpha / 255)
    )


def _stops_kept(ttfont, ot_paint, g):
    return len(g.stops) == 2 and all(
        g.stops[i].stopOffset == ot_paint.ColorLine.ColorStop[i].StopOffset
        and (g.stops[i].color.red, g.stops[i].color.green, g.stops[i].color.blue, g.stops[i].color.alpha) == _stop_colour(ttfont, ot_paint.ColorLine.ColorStop[i])
        for i in range(0, 2)
    )


@contract(_AGOP, props=["C13", "C15"])
class apply_gradient_ot_paint_linear:
    """linear gradient: all three points through pending-transform-then-V; no gradientTransform"""

    scope = "finite: colour lines of 2 stops, the 3 extend modes"
    args = {
        "svg_defs": Opaque("any"),
        "svg_path": Obj(attrib=Const({})),
        "ttfont": _CPAL1,
        "font_to_vbox": AFF,
        "ot_paint": OneOf(*[Obj(Format=Const(4), ColorLine=_CL(e), x0=Real, y0=Real, x1=Real, y1=Real, x2=Real, y2=Real) for e in (0, 1, 2)]),
        "reuse_cache": Obj(gradient_ids=AssocOf()),
        "transform": AFF,
    }
    requires = [lambda ttfont, ot_paint: _stops_ok(ttfont, ot_paint)]
    ensures = {
        "points-through-pending-then-viewbox-map": lambda ot_paint, transform, font_to_vbox, calls: _lin3(calls[_AGP2][0].args.paint)
        == tuple(spec.pt(spec.ltr(spec.aff(transform), spec.aff(font_to_vbox)), p) for p in ((ot_paint.x0, ot_paint.y0), (ot_paint.x1, ot_paint.y1), (ot_paint.x2, ot_paint.y2))),
        "no-gradient-transform": lambda calls: spec.aff(calls[_AGP2][0].args.transform) == spec.ID,
        "colour-line": lambda ttfont, ot_paint, calls: _stops_kept(ttfont, ot_paint, calls[_AGP2][0].args.paint)
        and calls[_AGP2][0].args.paint.extend.value == (ot_paint.ColorLine.Extend,),
        "same-element": lambda svg_path, calls: calls[_AGP2][0].args.svg_path is svg_path,
    }
    native = False


def _lin3(g):
    return (tuple(g.p0), tuple(g.p1), tuple(g.p2))


@contract(_AGOP, props=["C13", "C15"])
class apply_gradient_ot_paint_radial:
    """radial gradient: with (U, R) the uniform/residual split of pending-then-V, circles go
    through U (centres mapped, radii scaled) and R is the gradientTransform, so that the
    gradient is drawn through  U then R  =  pending then V"""

    scope = "finite: colour lines of 2 stops, extend mode repeat (the colour line code is shared with the linear case, which covers all three modes)"
    args = {
        "svg_defs": Opaque("any"),
        "svg_path": Obj(attrib=Const({})),
        "ttfont": _CPAL1,
        "font_to_vbox": AFF,
        "ot_paint": Obj(Format=Const(6), ColorLine=_CL(1), x0=Real, y0=Real, r0=Real, x1=Real, y1=Real, r1=Real),
        "reuse_cache": Obj(gradient_ids=AssocOf()),
        "transform": AFF,
    }
    requires = [
        lambda ttfont, ot_paint: _stops_ok(ttfont, ot_paint) and ot_paint.r0 >= 0 and ot_paint.r1 >= 0,
        # pending-then-V is not (numerically) singular
        lambda transform, font_to_vbox: hypot(spec.ltr(spec.aff(transform), spec.aff(font_to_vbox))[0], spec.ltr(spec.aff(transform), spec.aff(font_to_vbox))[1])
        * hypot(spec.ltr(spec.aff(transform), spec.aff(font_to_vbox))[2], spec.ltr(spec.aff(transform), spec.aff(font_to_vbox))[3])
        > 2 ** -52,
    ]
    may_raise = ("ZeroDivisionError", "AssertionError")
    ensures = {
        "split-of-pending-then-viewbox-map": lambda transform, font_to_vbox, calls: spec.aff(calls[_DEC][0].args.transform)
        == spec.ltr(spec.aff(transform), spec.aff(font_to_vbox)),
        "circles-through-the-uniform-part": lambda ot_paint, calls: tuple(calls[_AGP2][0].args.paint.c0) == spec.pt(spec.aff(calls[_DEC][0].result[0]), (ot_paint.x0, ot_paint.y0))
        and tuple(calls[_AGP2][0].args.paint.c1) == spec.pt(spec.aff(calls[_DEC][0].result[0]), (ot_paint.x1, ot_paint.y1))
        and calls[_AGP2][0].args.paint.r0 == ot_paint.r0 * calls[_DEC][0].result[0].a
        and calls[_AGP2][0].args.paint.r1 == ot_paint.r1 * calls[_DEC][0].result[0].a,
        "residual-is-the-gradient-transform": lambda calls: spec.aff(calls[_AGP2][0].args.transform) == spec.aff(calls[_DEC][0].result[1]),
        "colour-line": lambda ttfont, ot_paint, calls: _stops_kept(ttfont, ot_paint, calls[_AGP2][0].args.paint)
        and calls[_AGP2][0].args.paint.extend.value == (ot_paint.ColorLine.Extend,),
    }
    native = False


# ---- _apply_solid_ot_paint: palette colour x paint alpha onto the element --------------------


def _solid_rgba(ttfont, ot_paint):
    pal = ttfont["CPAL"].palettes[0]
    i = ot_paint.PaletteIndex
    return (-1, -1, -1, ot_paint.Alpha) if i == 0xFFFF else (pal[i].red, pal[i].green, pal[i].blue, ot_paint.Alpha * pal[i].alpha / 255)


@contract("nanoemoji.colr_to_svg._apply_solid_ot_paint", props=["C13", "C15"])
class apply_solid_ot_paint:
    scope = "finite: a font with one palette (multi-palette var(--colorN, c) fills: _color's contract and the bounded tier)"
    args = {"svg_path": Elem("path"), "ttfont": _CPAL1, "ot_paint": Obj(Format=Const(2), PaletteIndex=Int, Alpha=Real)}
    requires = [lambda ttfont, ot_paint: ot_paint.PaletteIndex >= 0 and (ot_paint.PaletteIndex == 0xFFFF or ot_paint.PaletteIndex < len(ttfont["CPAL"].palettes[0]))]
    ensures = {
        "fill-iff-not-black": lambda svg_path, ttfont, ot_paint: iff("fill" in svg_path.attrib, _solid_rgba(ttfont, ot_paint)[:3] != (0, 0, 0)),
        "fill-is-the-palette-colour": lambda svg_path, ttfont, ot_paint: "fill" not in svg_path.attrib
        or svg_path.attrib["fill"] == ufn("css_colour", "str", _solid_rgba(ttfont, ot_paint)[0], _solid_rgba(ttfont, ot_paint)[1], _solid_rgba(ttfont, ot_paint)[2], 1.0),
        # CPAL alpha (COLRv0 style) times the paint's alpha; the foreground colour keeps the paint's alpha
        "opacity-is-palette-alpha-times-paint-alpha": lambda svg_path, ttfont, ot_paint: iff("opacity" in svg_path.attrib, _solid_rgba(ttfont, ot_paint)[3] != 1)
        and ("opacity" not in svg_path.attrib or svg_path.attrib["opacity"] == ufn("ntos_round3", "str", _solid_rgba(ttfont, ot_paint)[3])),
    }
    native = False
