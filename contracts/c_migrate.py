"""write_font._migrate_paths_to_ufo_glyphs.<locals>._update_paint_glyph -- where a path
becomes a glyph or a transformed reference to an earlier glyph (C01, C06, C16, C19)."""
from vlib import *
import spec
from c_common import AFF, PT
from c_glyph_reuse import CACHE, cache_ok, N, AB, AB_some, _match, _donor
from c_paint import LIN, RAD

COLOR = Record("nanoemoji.colors.Color")
SOLID = Record("nanoemoji.paint.PaintSolid", color=COLOR)
R6 = TupleOf(Real, Real, Real, Real, Real, Real)


def _w(child):
    return Record("nanoemoji.paint.PaintTransform", transform=R6, paint=child)


_CHILD = OneOf(SOLID, LIN, RAD, _w(LIN), _w(RAD), _w(SOLID))
_PG = Record("nanoemoji.paint.PaintGlyph", glyph=Str, paint=_CHILD)


@contract("nanoemoji.write_font._create_glyph", props=["C01", "C06", "C19"])
class create_glyph:
    # draws the outline into a new ufo glyph: ufoLib2 / pens, outside the proved subset
    assumed = True
    args = {"color_glyph": Opaque("ColorGlyph"), "paint": Opaque("PaintGlyphAny"), "path_in_font_space": Str}
    returns = Obj(name=Str)
    ensures = {"named-by-the-path": lambda path_in_font_space, result: result.name == ufn("created_glyph_name", "str", path_in_font_space)}
    native = False
    note = "creates a new ufo glyph drawn from path_in_font_space and returns it (exercised by the end-to-end picture checks of the bounded tier)"


def _dprime(paint, S):
    return ufn("svgpath_apply_transform", "str", paint.glyph, spec.aff(S))


def _child(paint):
    """(W, c): the wrapper's affine and the wrapped paint, as the code splits them"""
    return spec.placed(paint.paint) if kind(paint.paint) in spec.TRANSFORM_KINDS else (spec.ID, paint.paint)


def _is_grad(c):
    return kind(c) in ("PaintLinearGradient", "PaintRadialGradient")


def _reuse(calls):
    return calls["nanoemoji.glyph_reuse.GlyphReuseCache.try_reuse"][0].result


def _tried(calls):
    return "nanoemoji.glyph_reuse.GlyphReuseCache.try_reuse" in calls


def _fresh(paint, S, result):
    return (
        kind(result) == "PaintGlyph"
        and result.glyph == ufn("created_glyph_name", "str", _dprime(paint, S))
        and same(result.paint, paint.paint)
    )


def _lin_points(g):
    return (tuple(g.p0), tuple(g.p1), tuple(g.p2))


@contract("nanoemoji.write_font._migrate_paths_to_ufo_glyphs.<locals>._update_paint_glyph", props=["C01", "C06", "C16", "C19"])
class update_paint_glyph:
    args = {"paint": OneOf(_PG, SOLID)}
    free = {
        "glyph_cache": CACHE,
        "color_glyph": Opaque("ColorGlyph"),
        "svg_units_to_font_units": AFF,
    }
    requires = [
        lambda glyph_cache: cache_ok(glyph_cache) and glyph_cache._reuse_tolerance != 0,
        # gradient wrappers produced by color_glyph._parse_*_gradient are invertible
        lambda paint: kind(paint) != "PaintGlyph" or kind(paint.paint) not in spec.TRANSFORM_KINDS or spec.det(spec.ot_transform(paint.paint)) != 0,
    ]
    assume_pre = {
        "nanoemoji.paint._decompose_uniform_transform": "the combined gradient/inverse-reuse transform is not numerically singular (a singular placement paints nothing)",
    }
    may_raise = ("AssertionError", "ZeroDivisionError")
    ensures = {
        "not-a-path-untouched": lambda paint, result, calls: implies(
            kind(paint) != "PaintGlyph" or not _tried(calls), same(result, paint)
        ),
        # (i) no donor -> a new glyph drawn from the path in font space, same paint
        "no-match-new-glyph": lambda paint, svg_units_to_font_units, result, calls: (not _tried(calls)) or implies(
            isnone(_reuse(calls)), _fresh(paint, svg_units_to_font_units, result)
        ),
        "tried-with-the-path-in-font-space": lambda paint, svg_units_to_font_units, calls: (not _tried(calls))
        or calls["nanoemoji.glyph_reuse.GlyphReuseCache.try_reuse"][0].args.path == _dprime(paint, svg_units_to_font_units),
        # (ii)/(iii)/(iv): a donor is used unless the gradient counter-transform does not fit
        # Fixed; a reused shape references the donor through (approximately) the reuse affine
        "match-taken-or-unrepresentable": lambda paint, svg_units_to_font_units, result, calls: (not _tried(calls)) or implies(
            not isnone(_reuse(calls)),
            (
                kind(result) == "Wrapped"
                and kind(result.paint) == "PaintGlyph"
                and result.paint.glyph == _reuse(calls).glyph_name
                and close(result.m, spec.aff(_reuse(calls).transform), 1e-9 * 32770)
            )
            or (_is_grad(_child(paint)[1]) and _fresh(paint, svg_units_to_font_units, result)),
        ),
        "solid-fill-kept": lambda paint, result, calls: (not (_tried(calls) and kind(result) == "Wrapped" and not _is_grad(_child(paint)[1])))
        or same(result.paint.paint, _child(paint)[1]),
        # (iii) linear gradient under a reused glyph.  With T = "W then A^-1" (ghost: A^-1 is
        # the callee's result) every gradient point ends up, inside the reused PaintGlyph, at
        # T(p): either the geometry itself was mapped, or (coordinates would overflow) the
        # gradient is wrapped in a transform that denotes T.  Lemma L-reuse-cancel then gives
        # A o T = W: drawn through the reuse affine the gradient lands where W put it.
        "linear-gradient-counter-transformed": lambda paint, result, calls: (
            not (_tried(calls) and kind(result) == "Wrapped" and kind(_child(paint)[1]) == "PaintLinearGradient")
        )
        or (
            kind(spec.net(result.paint.paint)[1]) == "PaintLinearGradient"
            and (
                # geometry mapped by T, no wrapper ...
                (
                    spec.net(result.paint.paint)[0] == spec.ID
                    and all(
                        q == spec.pt(spec.ltr(_child(paint)[0], spec.aff(calls["picosvg.svg_transform.Affine2D.inverse"][0].result)), p)
                        for (q, p) in zip(_lin_points(spec.net(result.paint.paint)[1]), _lin_points(_child(paint)[1]))
                    )
                )
                # ... or geometry untouched under a wrapper that denotes T
                or (
                    _lin_points(spec.net(result.paint.paint)[1]) == _lin_points(_child(paint)[1])
                    and close(
                        spec.net(result.paint.paint)[0][:4],
                        spec.ltr(_child(paint)[0], spec.aff(calls["picosvg.svg_transform.Affine2D.inverse"][0].result))[:4],
                        1e-9,
                    )
                    and close(
                        spec.net(result.paint.paint)[0][4:],
                        spec.ltr(_child(paint)[0], spec.aff(calls["picosvg.svg_transform.Affine2D.inverse"][0].result))[4:],
                        1e-9 * 32770,
                    )
                )
            )
            and same(spec.net(result.paint.paint)[1].stops, _child(paint)[1].stops)
            and same(spec.net(result.paint.paint)[1].extend, _child(paint)[1].extend)
        ),
        "inverse-is-of-the-reuse-affine": lambda calls: ("picosvg.svg_transform.Affine2D.inverse" not in calls)
        or spec.aff(calls["picosvg.svg_transform.Affine2D.inverse"][0].args.self) == spec.aff(_reuse(calls).transform),
        # radial: the circles go through the uniform part of T, the residual wraps them
        # (contract of PaintRadialGradient.apply_transform); here: it is applied to T
        "radial-gradient-counter-transformed": lambda paint, result, calls: (
            not (_tried(calls) and kind(result) == "Wrapped" and kind(_child(paint)[1]) == "PaintRadialGradient")
        )
        or (
            kind(spec.net(result.paint.paint)[1]) == "PaintRadialGradient"
            and same(spec.net(result.paint.paint)[1].stops, _child(paint)[1].stops)
            and (
                # fallback: untouched circles under a wrapper denoting T
                (
                    spec.net(result.paint.paint)[1] == _child(paint)[1]
                    and close(
                        spec.net(result.paint.paint)[0][:4],
                        spec.ltr(_child(paint)[0], spec.aff(calls["picosvg.svg_transform.Affine2D.inverse"][0].result))[:4],
                        1e-9,
                    )
                )
                # or: split T = uniform U then residual R; circles by U, wrapper denotes R
                or (
                    "nanoemoji.paint._decompose_uniform_transform" in calls
                    and spec.aff(calls["nanoemoji.paint._decompose_uniform_transform"][0].args.transform)
                    == spec.ltr(_child(paint)[0], spec.aff(calls["picosvg.svg_transform.Affine2D.inverse"][0].result))
                    and tuple(spec.net(result.paint.paint)[1].c0)
                    == spec.pt(spec.aff(calls["nanoemoji.paint._decompose_uniform_transform"][0].result[0]), _child(paint)[1].c0)
                    and spec.net(result.paint.paint)[1].r1 == _child(paint)[1].r1 * calls["nanoemoji.paint._decompose_uniform_transform"][0].result[0].a
                )
            )
        ),
        # (iv) un-reused only because the counter-transform does not fit Fixed ...
        "unrepresentable-only-when-overflow": lambda paint, svg_units_to_font_units, result, calls: (
            not (_tried(calls) and _is_grad(_child(paint)[1]) and kind(result) != "Wrapped")
        )
        or implies(
            not isnone(_reuse(calls)),
            "picosvg.svg_transform.Affine2D.inverse" in calls
            and not all(
                spec.in_fixed(v)
                for v in spec.ltr(_child(paint)[0], spec.aff(calls["picosvg.svg_transform.Affine2D.inverse"][0].result))
            ),
        ),
        # ... and reused only when it does (C06: otherwise the shape is emitted un-reused)
        "reused-gradient-is-representable": lambda paint, result, calls: (
            not (_tried(calls) and _is_grad(_child(paint)[1]) and kind(result) == "Wrapped")
        )
        or (
            "picosvg.svg_transform.Affine2D.inverse" in calls
            and all(
                spec.in_fixed(v)
                for v in spec.ltr(_child(paint)[0], spec.aff(calls["picosvg.svg_transform.Affine2D.inverse"][0].result))
            )
        ),
    }
    native = False
