"""Driver -> worker hand-offs (C10) and naming (C04): bounded tier.  String-level functions
(csv, regex, toml, json, hex formatting, sha1) are outside the proved subset; the contracts
below are executed natively on generated inputs with a stated bound."""
from vlib import *
import roundtrip_helpers as H


@contract("nanoemoji.config.load", props=["C10", "C20"])
class config_write_load:
    bounded_only = True
    gen = H.gen_config
    native_call = H.write_then_load
    n_quick = 150
    n_thorough = 3000
    ensures = {
        # every field except the derived ones survives write -> load unchanged
        "field-for-field": lambda config, result: H.config_diff(config, result) == [],
        "every-field-is-written": lambda config, result: H.unwritten_fields(config) == [],
    }
    known_witnesses = {
        "K7": lambda: {"config": H.config_with(family='""'), "flags": {}},
    }


@contract("nanoemoji.config.load", props=["C10", "C20"])
class config_flag_precedence:
    bounded_only = True
    gen = H.gen_config_and_flags
    native_call = H.write_then_load
    n_quick = 100
    n_thorough = 2000
    ensures = {
        # a flag overrides the file value; a value given nowhere is the documented default
        "flag-over-file": lambda config, flags, result: H.precedence_diff(config, flags, result) == [],
    }


@contract("nanoemoji.glyphmap.load_from", props=["C10", "C04"])
class glyphmap_csv:
    bounded_only = True
    gen = H.gen_mapping
    native_call = H.csv_roundtrip
    n_quick = 600
    n_thorough = 20000
    ensures = {"same-row": lambda mapping, result: result == (mapping,)}
    known_witnesses = {"K8": lambda: {"mapping": H.mapping_with_path(" a.svg")}}


@contract("nanoemoji.codepoints.from_filename", props=["C10", "C04"])
class codepoints_from_filename:
    bounded_only = True
    gen = H.gen_filename
    native_call = H.from_filename
    n_quick = 600
    n_thorough = 20000
    ensures = {"recovered": lambda seq, filename, result: tuple(result) == tuple(seq)}


@contract("nanoemoji.glyph.glyph_name", props=["C10", "C04"])
class glyph_names:
    bounded_only = True
    gen = H.gen_seq_pair
    native_call = H.names_of_pair
    n_quick = 3000
    n_thorough = 100000
    ensures = {
        "legal-in-feature-files": lambda result: all(H.legal_glyph_name(n) for n in result),
        "distinct-sequences-distinct-names": lambda a, b, result: a == b or result[0] != result[1],
    }
    known_witnesses = {"F6": lambda: {"a": (0x67, 0x1F600), "b": (0x1F600,)}}


@contract("nanoemoji.glyph._name", props=["C10", "C04"])
class glyph_name_tokens:
    # exhaustive enumeration of all 0x110000 code points (complete, not sampled): the token
    # lemma behind "names of distinct sequences are distinct and legal": a token is the letter
    # itself for ASCII letters and lower-case hex (no '_') for everything else
    bounded_only = True
    gen = lambda rng: {}
    native_call = H.name_token_problems
    n_quick = 1
    n_thorough = 1
    ensures = {"tokens": lambda result: result == []}


@contract("nanoemoji.features.generate_fea", props=["C04"])
class generate_fea:
    bounded_only = True
    gen = H.gen_sequences
    native_call = H.fea_rules
    n_quick = 200
    n_thorough = 5000
    ensures = {
        # exactly one ligature rule per multi-codepoint sequence: its components' glyphs -> its glyph
        "one-rule-per-sequence": lambda seqs, result: H.fea_rules_expected(seqs) == result["rules"],
        "parses": lambda result: result["parses"],
    }


@contract("nanoemoji.parts.ReusableParts.from_json", props=["C10"])
class parts_json:
    bounded_only = True
    gen = H.gen_parts
    native_call = H.parts_roundtrip
    n_quick = 100
    n_thorough = 2000
    ensures = {"same-shape-sets": lambda parts, result: H.parts_equal(parts, result)}


@contract("nanoemoji.util.expand_ninja_response_files", props=["C10"])
class response_files:
    bounded_only = True
    gen = H.gen_argv
    native_call = H.rsp_roundtrip
    n_quick = 200
    n_thorough = 5000
    ensures = {"same-arguments": lambda args, result: list(result) == list(args)}


@contract("nanoemoji.config.load", props=["C10", "C20"])
class config_masters_round_trip:
    bounded_only = True
    gen = H.gen_masters
    native_call = H.masters_round_trip
    n_quick = 60
    n_thorough = 1500
    ensures = {
        # axes (in any declaration order) and every master's location survive the driver's
        # write -> worker's load hand-off
        "axes-and-master-locations-survive": lambda result: result["loaded_is_what_was_written"] and result["reloaded_equals_loaded"] and result["default_master"],
        # ... and so does every master's list of source files, for any legal file name
        "sources-survive": lambda result: result["sources_first"] and result["sources_reloaded"],
        # the one-master configuration handed to the UFO step comes back field for field
        "per-master-ufo-configuration-survives": lambda result: result["ufo_config_diffs"] == [],
    }
    known_witnesses = {"K11": H.k11_witness}
