"""config.py -- C10 (what the driver resolves is what the workers see), C20 (options reach
the font), C17 (invalid configurations are rejected)."""
from vlib import *
import spec

_FORMATS = [
    "glyf", "glyf_colr_0", "glyf_colr_1", "cff_colr_0", "cff_colr_1", "cff2_colr_0", "cff2_colr_1",
    "picosvg", "picosvgz", "untouchedsvg", "untouchedsvgz", "cbdt", "sbix",
]

_CFG_V = Record(
    "nanoemoji.config.FontConfig",
    color_format=OneOf(*[Const(f) for f in _FORMATS]),
    axes=Const(()),
    masters=OneOf(Const((0,)), Const((0, 1))),
    source_names=Const(()),
)


def _bitmap(fmt):
    return fmt in ("cbdt", "sbix")


def _otsvg(fmt):
    return fmt in ("picosvg", "picosvgz", "untouchedsvg", "untouchedsvgz")


@contract("nanoemoji.config.FontConfig.validate", props=["C17", "C20"])
class validate:
    args = {"self": _CFG_V}
    raises = {
        "ValueError": lambda self: (
            self.upem < 0 or self.width < 0 or self.ascender < 0 or self.linegap < 0
            or self.version_major < 0 or self.version_minor < 0
            or self.descender > 0
            or ((not isnone(self.clipbox_quantization)) and self.clipbox_quantization < 1)
            # a variable font cannot carry bitmaps or OT-SVG
            or (len(self.masters) > 1 and (_bitmap(self.color_format) or _otsvg(self.color_format)))
        )
    }
    ensures = {"returns-self": lambda self, result: same(result, self)}
    native = False


# --- precedence: flag > file > default ------------------------------------------------------


def _flags(**k):
    return Obj(**k)


@contract("nanoemoji.config._pop_flag", props=["C10", "C20"])
class pop_flag_int:
    args = {"config": OneOf(Const({}), Const({"upem": Int})), "name": Const("upem")}
    globals = {"FLAGS": _flags(upem=Optional_(Int))}
    ensures = {
        "precedence": lambda config, g_FLAGS, result, old: result
        == (g_FLAGS.upem if not isnone(g_FLAGS.upem) else (old.config["upem"] if "upem" in old.config else 1024)),
        "consumed": lambda config: "upem" not in config,
    }
    native = False


@contract("nanoemoji.config._pop_flag", props=["C10", "C20"])
class pop_flag_str:
    args = {"config": OneOf(Const({}), Const({"family": Str})), "name": Const("family")}
    globals = {"FLAGS": _flags(family=Optional_(Str))}
    ensures = {
        "precedence": lambda config, g_FLAGS, result, old: result
        == (g_FLAGS.family if not isnone(g_FLAGS.family) else (old.config["family"] if "family" in old.config else "An Emoji Family")),
        "consumed": lambda config: "family" not in config,
    }
    native = False


@contract("nanoemoji.config._pop_flag", props=["C10", "C20"])
class pop_flag_optional:
    # an option whose default is None (clipbox_quantization)
    args = {"config": OneOf(Const({}), Const({"clipbox_quantization": Int})), "name": Const("clipbox_quantization")}
    globals = {"FLAGS": _flags(clipbox_quantization=Optional_(Int))}
    ensures = {
        "precedence": lambda config, g_FLAGS, result, old: (
            result == g_FLAGS.clipbox_quantization
            if not isnone(g_FLAGS.clipbox_quantization)
            else (result == old.config["clipbox_quantization"] if "clipbox_quantization" in old.config else isnone(result))
        ),
    }
    native = False
