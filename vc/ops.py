"""Arithmetic and comparison on mixed concrete / symbolic scalars (assumption A-real)."""
from fractions import Fraction
import z3
from .values import (
    Sym,
    EngineError,
    is_conc_num,
    is_num,
    term,
    mk,
    num_sort,
    sort_of,
    b_and,
    b_or,
    b_not,
    b_ite,
    fresh_name,
)


def conc_float(x):
    """A Python float constant denotes its shortest decimal representation."""
    if isinstance(x, float):
        if x != x or x in (float("inf"), float("-inf")):
            raise EngineError("nan/inf constant outside A-real")
        return Fraction(repr(x))
    return x


def add(a, b):
    if is_conc_num(a) and is_conc_num(b):
        return a + b
    s = num_sort(a, b)
    return mk(term(a, s) + term(b, s), s)


def sub(a, b):
    if is_conc_num(a) and is_conc_num(b):
        return a - b
    s = num_sort(a, b)
    return mk(term(a, s) - term(b, s), s)


def mul(a, b):
    if is_conc_num(a) and is_conc_num(b):
        return a * b
    s = num_sort(a, b)
    return mk(term(a, s) * term(b, s), s)


def neg(a):
    if is_conc_num(a):
        return -a
    return mk(-term(a), sort_of(a))


def truediv_total(a, b):
    """a / b as a real term; caller has dealt with b == 0."""
    if is_conc_num(a) and is_conc_num(b):
        return Fraction(a) / Fraction(b)
    if is_conc_num(b):
        return mk(term(a, "real") * term(Fraction(1) / Fraction(b), "real"), "real")
    return mk(term(a, "real") / term(b, "real"), "real")


def floor_t(t_real):
    return z3.ToInt(t_real)


def floor(a):
    if isinstance(a, int):
        return a
    if isinstance(a, Fraction):
        return a.numerator // a.denominator
    if a.sort == "int":
        return a
    return mk(z3.ToInt(a.t), "int")


def ceil(a):
    if isinstance(a, int):
        return a
    if isinstance(a, Fraction):
        return -((-a.numerator) // a.denominator)
    if a.sort == "int":
        return a
    return mk(-z3.ToInt(-a.t), "int")


def trunc(a):
    """int(x): truncation toward zero."""
    if isinstance(a, bool):
        return int(a)
    if isinstance(a, int):
        return a
    if isinstance(a, Fraction):
        return int(a)
    if a.sort == "int":
        return a
    if a.sort == "bool":
        return mk(z3.If(a.t, z3.IntVal(1), z3.IntVal(0)), "int")
    return mk(z3.If(a.t >= 0, z3.ToInt(a.t), -z3.ToInt(-a.t)), "int")


def round_half_even(a):
    """round(x) -> int, ties to even (Python 3)."""
    if isinstance(a, int):
        return a
    if isinstance(a, Fraction):
        return round(a)
    if a.sort == "int":
        return a
    x = a.t
    f = z3.ToInt(x + z3.RealVal("1/2"))  # floor(x + 1/2)
    tie = z3.ToReal(f) == x + z3.RealVal("1/2")
    odd = f % 2 == 1
    return mk(z3.If(z3.And(tie, odd), f - 1, f), "int")


def round_nd(a, n):
    """round(x, n) for a real: the nearest multiple of 10**-n (ties to even on the
    scaled value; A-real)."""
    if not isinstance(n, int):
        raise EngineError("round(x, n) with symbolic n")
    if isinstance(a, int):
        return a if n >= 0 else round(a, n)
    if isinstance(a, Fraction):
        p = Fraction(10) ** n
        return Fraction(round(a * p)) / p
    if a.sort == "int":
        return a
    p = Fraction(10) ** n
    scaled = mk(a.t * term(p, "real"), "real")
    r = round_half_even(scaled)
    return mk(term(r, "real") * term(1 / p, "real"), "real")


def floordiv(a, b):
    if is_conc_num(a) and is_conc_num(b):
        if isinstance(a, int) and isinstance(b, int):
            return a // b
        return Fraction((Fraction(a) / Fraction(b)).__floor__())
    s = num_sort(a, b)
    if s == "int":
        ta, tb = term(a, "int"), term(b, "int")
        return mk(z3.If(tb > 0, ta / tb, (-ta) / (-tb)), "int")
    q = truediv_total(a, b)
    return mk(z3.ToReal(z3.ToInt(term(q, "real"))), "real")


def mod(a, b):
    if is_conc_num(a) and is_conc_num(b):
        return a % b
    return sub(a, mul(b, floordiv(a, b)))


def power(a, b):
    if is_conc_num(a) and is_conc_num(b):
        if isinstance(b, int):
            return a**b if (b >= 0 or isinstance(a, Fraction)) else Fraction(a) ** b
        raise EngineError("fractional power")
    if isinstance(b, int) and 0 <= b <= 4:
        r = 1
        for _ in range(b):
            r = mul(r, a)
        return r
    raise EngineError("symbolic power")


def absv(a):
    if is_conc_num(a):
        return abs(a)
    return mk(z3.If(a.t >= 0, a.t, -a.t), a.sort)


def cmp_num(op, a, b):
    if is_conc_num(a) and is_conc_num(b) or (isinstance(a, bool) and isinstance(b, bool)):
        return {"<": a < b, "<=": a <= b, ">": a > b, ">=": a >= b, "==": a == b, "!=": a != b}[op]
    s = num_sort(a, b)
    ta, tb = term(a, s), term(b, s)
    t = {"<": ta < tb, "<=": ta <= tb, ">": ta > tb, ">=": ta >= tb, "==": ta == tb, "!=": ta != tb}[op]
    return mk(t, "bool")


def minv(a, b):
    if is_conc_num(a) and is_conc_num(b):
        return a if a <= b else b  # python min returns first on ties
    return b_ite(cmp_num("<", b, a), b, a)


def maxv(a, b):
    if is_conc_num(a) and is_conc_num(b):
        return a if a >= b else b
    return b_ite(cmp_num(">", b, a), b, a)


# ---- transcendental: uninterpreted with the identities the proofs use

_sin = z3.Function("py_sin", z3.RealSort(), z3.RealSort())
_cos = z3.Function("py_cos", z3.RealSort(), z3.RealSort())
_tan = z3.Function("py_tan", z3.RealSort(), z3.RealSort())
PI = z3.Real("py_pi")
PI_AXIOMS = [PI > z3.RealVal("3.14159"), PI < z3.RealVal("3.1416")]


def trig(name, a, assume):
    x = term(a, "real")
    if is_conc_num(a) and a == 0:
        return {"sin": 0, "cos": 1, "tan": 0}[name]
    s, c, t = _sin(x), _cos(x), _tan(x)
    assume(s * s + c * c == 1)
    assume(t * c == s)
    assume(z3.And(_sin(-x) == -s, _cos(-x) == c, _tan(-x) == -t))
    return Sym({"sin": s, "cos": c, "tan": t}[name], "real")


def hypot(a, b, assume):
    if is_conc_num(a) and is_conc_num(b):
        sq = Fraction(a) ** 2 + Fraction(b) ** 2
        n, d = sq.numerator, sq.denominator
        import math

        rn, rd = math.isqrt(n), math.isqrt(d)
        if rn * rn == n and rd * rd == d:
            return Fraction(rn, rd)
    h = z3.Real(fresh_name("hypot"))
    ta, tb = term(a, "real"), term(b, "real")
    assume(z3.And(h >= 0, h * h == ta * ta + tb * tb))
    return Sym(h, "real")


def sqrt(a, assume):
    if is_conc_num(a):
        return hypot(a, 0, assume) if False else _csqrt(a, assume)
    h = z3.Real(fresh_name("sqrt"))
    assume(z3.And(h >= 0, h * h == term(a, "real")))
    return Sym(h, "real")


def _csqrt(a, assume):
    import math

    f = Fraction(a)
    rn, rd = math.isqrt(f.numerator), math.isqrt(f.denominator)
    if rn * rn == f.numerator and rd * rd == f.denominator:
        return Fraction(rn, rd)
    h = z3.Real(fresh_name("sqrt"))
    assume(z3.And(h >= 0, h * h == term(f, "real")))
    return Sym(h, "real")
