"""Contracts -> verification conditions -> z3 / cvc5.

A contract is a class in /verif/contracts/*.py decorated with @contract("<qualified name of
the real function>", props=[...]).  The class body is interpreted by the same engine that
interprets the function, so clauses are ordinary lambdas over the function's parameters
(+ `result`).  See DESIGN.md section 2.
"""
import ast
import hashlib
import json
import os
import subprocess
import tempfile
import time
import traceback
import z3

from .values import *
from . import values as V
from . import interp as I
from . import builtins_ as B
from . import shapes as S
from . import ops
from . import linearize as LZ

S.install(B)

REPO = os.environ.get("VERIF_REPO", "/repo")
SITE = "/venv/lib/python3.12/site-packages"
HERE = os.path.dirname(os.path.dirname(os.path.abspath(__file__)))

INTERPRETED = (
    "nanoemoji",
    "picosvg.geometric_types",
    "picosvg.svg_transform",
    "picosvg.svg_meta",
    "fontTools.misc.arrayTools",
    "fontTools.misc.roundTools",
    "fontTools.ttLib.tables.otTables",
    "spec",
    "c_",
    "contracts",
)


def make_world(repo=None):
    repo = repo or REPO
    w = I.World([os.path.join(repo, "src"), SITE, os.path.join(HERE, "contracts")], INTERPRETED)
    w.repo = repo
    orig = w.interpreted

    def interp_(name):
        return orig(name) or name.startswith("c_") or name == "spec" or name.startswith("spec_")

    w.interpreted = interp_
    return w


# --------------------------------------------------------------------------- contracts


class Contract:
    def __init__(self, target, cls, deco_kw, module):
        self.target = target
        self.cls = cls
        self.module = module
        self.name = cls.name
        self.props = list(deco_kw.get("props", []))
        a = cls.attrs
        self.args = a.get("args", {})
        self.requires = _as_list(a.get("requires", []))
        self.ensures = a.get("ensures", {})
        self.raises = a.get("raises", {})  # exc name -> condition (iff)
        self.may_raise = tuple(a.get("may_raise", ()))
        self.raises_if = a.get("raises_if", {})  # exc name -> condition under which it MUST end in exc (one direction)
        self.returns = a.get("returns", None)
        self.modular = bool(a.get("modular", self.returns is not None))
        self.free = a.get("free", {})  # closure variables for nested functions
        self.invariants = a.get("invariants", {})
        self.decreases = a.get("decreases", {})
        self.have = a.get("have", {})
        self.assumed = bool(a.get("assumed", False))  # contract of a dependency, not proved
        self.bounded_only = bool(a.get("bounded_only", False))
        self.kind = a.get("kind", "function")  # function | lemma
        self.statement = a.get("statement", None)  # lemma: lambda over args -> bool
        self.inline = tuple(a.get("inline", ()))
        self.stubs = tuple(a.get("stubs", ()))  # targets whose `local_only` summary is in force for this contract only
        self.local_only = bool(a.get("local_only", False))
        self.note = a.get("note", "")
        self.native = bool(a.get("native", True))  # False: the clauses are not re-executed natively (ghost / element models)
        self.assumes = tuple(a.get("assumes", ()))  # unchecked assumptions of this contract, listed in the evidence
        self.result_name = a.get("result_name", "result")
        self.frame_after = a.get("post_state", None)
        self.finite_scope = a.get("finite_scope", None)
        self.timeout_s = a.get("timeout_s", None)
        self.abstract_round = bool(a.get("abstract_round", False))
        self.loop_vars = a.get("loop_vars", {})
        self.uses = a.get("uses", {})
        self.assume_pre = a.get("assume_pre", {})
        self.globals_ = a.get("globals", {})  # module-level names replaced by symbolic values  # callee target -> reason (listed in trusted_base)
        self.chain = bool(a.get("chain", False))
        self.scope = a.get("scope", None)  # e.g. "finite: lengths 0..3" -> not counted as proved
        self.dep = bool(deco_kw.get("dep", False))
        self.modular_ensures = a.get("modular_ensures", None)

    # ---- modular use at a call site
    def apply_modular(self, ip, func, env):
        ip.used_contracts.add(self.target)
        names = [k for k in env.vars if k != "__qualname__"]
        argv = {k: env.vars[k] for k in names}
        ip.pure += 1
        try:
            for i, r in enumerate(self.requires):
                t = ip.truth(bool_clause(ip, r, argv))
                if t is not True:
                    top = getattr(ip, "top_contract", None)
                    if top is not None and self.target in top.assume_pre:
                        ip.assume(to_bool_term(t))
                        ip.used_contracts.add(f"assumed-precondition:{self.target}:{top.assume_pre[self.target]}")
                    else:
                        ip.obligations.append((f"call-pre:{self.target}#{i}", list(ip.pc), to_bool_term(t)))
        finally:
            ip.pure -= 1
        # error outcomes
        for exc, cond in self.raises.items():
            ip.pure += 1
            try:
                c = ip.truth(bool_clause(ip, cond, argv))
            finally:
                ip.pure -= 1
            if ip.branch(c):
                raise PyRaise(ExcV(exc, ()))
        for exc in self.may_raise:
            b = V.fresh("bool", f"mayraise_{exc}")
            if ip.branch(b):
                raise PyRaise(ExcV(exc, ()))
        mk_ = S.Maker(ip)
        rs = self.returns
        if isinstance(rs, I.FuncV):
            rs = ip.call_v(rs, [], argv_subset(rs, argv))
        res = mk_.make(rs, V.fresh_name("ret_" + self.name))
        for t in mk_.side:
            ip.assume(t)
        ip.pure += 1
        try:
            av = dict(argv)
            av["result"] = res
            av["old"] = I.NS(**argv)  # modular use is only offered for functions that leave their arguments alone
            ens = self.modular_ensures if self.modular_ensures is not None else self.ensures
            for nm, cl in ens.items():
                t = ip.truth(bool_clause(ip, cl, av))
                if t is False:
                    raise EngineError(f"modular use of {self.target}: clause {nm!r} is false for the result template (inconsistent contract)")
                ip.assume(to_bool_term(t) if not isinstance(t, bool) else t)
        finally:
            ip.pure -= 1
        if not getattr(ip, "defining", 0):
            ip.call_log.setdefault(self.target, []).append(I.NS(args=I.NS(**argv), result=res))
        return res


def _as_list(x):
    if isinstance(x, (list, tuple)):
        return list(x)
    return [x]


def argv_subset(fn, argv):
    names = [p.arg for p in fn.node.args.args]
    return {n: argv[n] for n in names if n in argv}


def call_clause(ip, fn, argv):
    """call a contract lambda with the subset of named values it asks for"""
    r = _call_clause(ip, fn, argv)
    if isinstance(r, (tuple, list, dict)) and not isinstance(fn, I.FuncV) is False and getattr(fn, "name", "") == "<lambda>" and isinstance(r, tuple) and len(r) == 1:
        raise EngineError(f"contract clause {fn.qualname} evaluates to a 1-tuple (stray trailing comma?)")
    return r


def bool_clause(ip, fn, argv):
    r = call_clause(ip, fn, argv)
    if not (isinstance(r, bool) or (isinstance(r, Sym) and r.sort == "bool")):
        raise EngineError(f"contract clause {getattr(fn, 'qualname', fn)} is not boolean: {r!r}")
    return r


def _call_clause(ip, fn, argv):
    if not isinstance(fn, I.FuncV):
        return fn
    a = fn.node.args
    names = [p.arg for p in a.posonlyargs + a.args]
    kw = {}
    for n in names:
        if n in argv:
            kw[n] = argv[n]
        else:
            raise EngineError(f"contract clause {fn.qualname} asks for unknown name {n!r}")
    return ip.call_function(fn, [], kw)


def load_contracts(world, modname):
    """interpret a contract module and collect its @contract classes"""
    ip = I.Interp(world)
    m = world.import_module(modname, ip)
    out = []
    for st in m.tree.body:
        if isinstance(st, ast.ClassDef):
            for d in st.decorator_list:
                if isinstance(d, ast.Call) and getattr(d.func, "id", None) in ("contract", "lemma"):
                    target = ip.eval(d.args[0], m.env)
                    kw = {k.arg: ip.eval(k.value, m.env) for k in d.keywords}
                    cls = m.get(st.name, ip)
                    c = Contract(target, cls, kw, modname)
                    if d.func.id == "lemma":
                        c.kind = "lemma"
                    out.append(c)
    return out


def resolve_function(world, ip, qual, free=None):
    """module.func | module.Class.method | module.f.<locals>.g"""
    parts = qual.split(".")
    # longest module prefix
    for k in range(len(parts), 0, -1):
        mn = ".".join(parts[:k])
        if world.interpreted(mn) and world.find(mn):
            rest = parts[k:]
            break
    else:
        raise EngineError(f"cannot resolve {qual}")
    m = world.import_module(mn, ip)
    if "<locals>" in rest:
        # nested function: locate the FunctionDef by walking the AST
        node = None
        body = m.tree.body
        path = [r for r in rest if r != "<locals>"]
        for nm in path:
            found = None
            for st in _walk_defs(body):
                if isinstance(st, (ast.FunctionDef, ast.ClassDef)) and st.name == nm:
                    found = st  # last definition wins
            if found is None:
                raise EngineError(f"cannot find {nm} in {qual}")
            node = found
            body = found.body
        env = I.Env(dict(free or {}), m.env, m)
        env.vars["__qualname__"] = ".".join([mn] + rest[:-2])
        return I.FuncV(node.name, qual, node, env, m)
    obj = m.get(rest[0], ip)
    for r in rest[1:]:
        if isinstance(obj, I.ClassV):
            a = obj.lookup(r)
            if a is None:
                raise EngineError(f"{qual}: no attribute {r}")
            obj = a
        else:
            raise EngineError(f"cannot resolve {qual}")
    if not isinstance(obj, I.FuncV):
        raise EngineError(f"{qual} is not a function")
    return obj


def _walk_defs(body):
    for st in body:
        yield st
        if isinstance(st, (ast.If, ast.For, ast.While, ast.Try, ast.With)):
            for sub in ("body", "orelse", "finalbody"):
                yield from _walk_defs(getattr(st, sub, []) or [])
            for h in getattr(st, "handlers", []) or []:
                yield from _walk_defs(h.body)


def source_sha(func):
    seg = ast.get_source_segment(func.module.src, func.node) or ""
    return hashlib.sha256(seg.encode()).hexdigest()


# --------------------------------------------------------------------------- exploring paths


class PathResult:
    def __init__(self, kind, value, pc, args, obligations, ip):
        self.kind = kind  # return | raise
        self.value = value
        self.pc = pc
        self.args = args
        self.obligations = obligations
        self.calls = dict(ip.call_log)
        self.used_contracts = set(ip.used_contracts)
        self.used_inlined = set(ip.used_inlined)
        self.decisions = [d[0] for d in ip.decisions]


def explore(world, run, max_paths=4000, hooks=None):
    decisions = []
    results = []
    n = 0
    while True:
        V._counter[0] = 0
        ip = I.Interp(world, decisions)
        if hooks:
            hooks(ip)
        try:
            out = run(ip)
        except I.PathPruned:
            out = None
        if out is not None:
            results.append(out)
        n += 1
        if n > max_paths:
            raise EngineError(f"more than {max_paths} paths")
        d = ip.decisions
        while d and not (d[-1][1] and d[-1][0] is True):
            d.pop()
        if not d:
            break
        d[-1] = [False, False]
        decisions = d
    return results


# --------------------------------------------------------------------------- solving


def smt2_of(pc, goal):
    s = z3.Solver()
    for t in pc:
        s.add(t)
    s.add(z3.Not(goal))
    return s.to_smt2()


def _conjuncts(goal):
    if z3.is_and(goal):
        out = []
        for ch in goal.children():
            out += _conjuncts(ch)
        return out
    return [goal]


def solve(pc, goal, timeout_s=10, want_model=True, use_cvc5=True):
    """validity of pc => goal; a conjunctive goal that is not decided as a whole is split
    into its conjuncts (each must be valid)."""
    parts = _conjuncts(z3.simplify(goal))
    r = solve1(pc, goal, min(timeout_s, 3), want_model, use_cvc5=False)
    if r["verdict"] != "unknown":
        return r
    t1 = time.time()
    if LZ.check_linearized(pc, goal, timeout_s) == "unsat":
        return {"verdict": "unsat", "backend": "z3-linearized", "time": r["time"] + time.time() - t1}
    if len(parts) <= 1 and timeout_s > 3:
        r2 = solve1(pc, goal, timeout_s, want_model, use_cvc5=False)
        r2["time"] += r["time"] + time.time() - t1
        r = r2
        if r["verdict"] != "unknown":
            return r
    if len(parts) > 1:
        t0 = time.time()
        backends = set()
        for g in parts:
            rp = solve1(pc, g, min(timeout_s, 3), want_model, use_cvc5=False)
            if rp["verdict"] == "unknown" and LZ.check_linearized(pc, g, timeout_s) == "unsat":
                rp = {"verdict": "unsat", "backend": "z3-linearized", "time": 0}
            if rp["verdict"] == "unknown":
                rp = solve1(pc, g, timeout_s, want_model, use_cvc5)
            backends.add(rp["backend"])
            if rp["verdict"] != "unsat":
                rp["time"] = time.time() - t0 + r["time"]
                return rp
        return {"verdict": "unsat", "backend": "+".join(sorted(backends)) + "(split)", "time": time.time() - t0 + r["time"]}
    if use_cvc5:
        r2 = solve1(pc, goal, timeout_s, want_model, use_cvc5=True)
        r2["time"] += r["time"]
        r = r2
        if r["verdict"] != "unknown":
            return r
    r3 = small_domain_model(pc, goal, timeout_s)
    if r3 is not None:
        r3["time"] += r["time"]
        return r3
    return r


def _int_consts(terms):
    seen, out, stack = set(), {}, list(terms)
    while stack:
        t = stack.pop()
        if t.get_id() in seen:
            continue
        seen.add(t.get_id())
        if z3.is_quantifier(t):
            stack.append(t.body())
            continue
        if z3.is_const(t) and t.decl().kind() == z3.Z3_OP_UNINTERPRETED:
            if t.sort() in (z3.IntSort(), z3.RealSort()):
                out[t.decl().name()] = t
        stack.extend(t.children())
    return list(out.values())


def small_domain_model(pc, goal, timeout_s):
    """counterexample search only: restrict every numeric unknown to a small box (and reals
    to multiples of 1/4).  A model found this way is a genuine model of pc and not goal."""
    cs = _int_consts(list(pc) + [goal])
    for bound in (4, 16, 64, 1024, 40000):
        t0 = time.time()
        s = z3.Solver()
        s.set("timeout", int(max(2, timeout_s / 2) * 1000))
        for t in pc:
            s.add(t)
        s.add(z3.Not(goal))
        for c in cs:
            s.add(c >= -bound, c <= bound)
            if c.sort() == z3.RealSort():
                s.add(z3.IsInt(c * 4))
        if s.check() == z3.sat:
            return {"verdict": "sat", "backend": f"z3-smalldomain({bound})", "time": time.time() - t0, "model": s.model()}
    return None


def solve1(pc, goal, timeout_s=10, want_model=True, use_cvc5=True):
    """validity of pc => goal.  returns dict(verdict=unsat|sat|unknown, backend, time, model)"""
    t0 = time.time()
    s = z3.Solver()
    s.set("timeout", int(timeout_s * 1000))
    for t in pc:
        s.add(t)
    s.add(z3.Not(goal))
    r = s.check()
    dt = time.time() - t0
    if r == z3.unsat:
        return {"verdict": "unsat", "backend": "z3", "time": dt}
    if r == z3.sat:
        return {"verdict": "sat", "backend": "z3", "time": dt, "model": s.model()}
    # second try: z3 with a different tactic for nonlinear real arithmetic
    reason = s.reason_unknown()
    try:
        t1 = time.time()
        g = z3.Goal()
        for t in pc:
            g.add(t)
        g.add(z3.Not(goal))
        tac = z3.TryFor(z3.Then("simplify", "purify-arith", "qfnra-nlsat"), int(timeout_s * 1000))
        res = tac(g)
        if len(res) == 1 and res[0].inconsistent():
            return {"verdict": "unsat", "backend": "z3-nlsat", "time": time.time() - t0}
    except z3.Z3Exception:
        pass
    if use_cvc5:
        r2 = cvc5_check(s.to_smt2(), timeout_s * 2)
        if r2 in ("unsat", "sat"):
            out = {"verdict": r2, "backend": "cvc5", "time": time.time() - t0}
            return out
    return {"verdict": "unknown", "backend": "z3+cvc5", "time": time.time() - t0, "reason": reason}


def cvc5_check(smt2, timeout_s):
    txt = smt2
    if "(set-logic" not in txt:
        txt = "(set-logic ALL)\n" + txt
    with tempfile.NamedTemporaryFile("w", suffix=".smt2", delete=False, dir=os.environ.get("VERIF_TMP", None)) as f:
        f.write(txt)
        p = f.name
    try:
        r = subprocess.run(
            ["/usr/bin/cvc5", "--strings-exp", f"--tlimit={int(timeout_s * 1000)}", p],
            capture_output=True,
            text=True,
            timeout=timeout_s + 5,
        )
        out = r.stdout.strip().splitlines()
        return out[0] if out else "unknown"
    except Exception:
        return "unknown"
    finally:
        os.unlink(p)


# --------------------------------------------------------------------------- verifying one contract


class Obl:
    def __init__(self, name, pc, goal, kind, path=None, inputs=None, extra=None):
        self.name = name
        self.pc = pc
        self.goal = goal
        self.kind = kind
        self.path = path
        self.inputs = inputs
        self.extra = extra or {}


def lemma_instances(world, ip, c, clause, av):
    """`uses = {clause or "*": [(lemma name, lambda <args>: {lemma arg: value})]}` -- the
    instantiated statement of a lemma (proved separately, for all values) as an assumption"""
    out = []
    for key in (clause, "*"):
        for lname, inst in c.uses.get(key, []):
            lem = getattr(world, "lemmas", {}).get(lname)
            if lem is None:
                raise EngineError(f"{c.name}: unknown lemma {lname}")
            vals = call_clause(ip, inst, av)
            if not isinstance(vals, dict) or set(vals) != set(lem.args):
                raise EngineError(f"{c.name}: instantiation of {lname} must give exactly {sorted(lem.args)}")
            req = [to_bool_term(ip.truth(call_clause(ip, r, vals))) for r in lem.requires]
            st = to_bool_term(ip.truth(call_clause(ip, lem.statement, vals)))
            out.append(z3.Implies(z3.And(*req) if req else z3.BoolVal(True), st))
            ip.used_contracts.add("lemma:" + lname)
    return out


def witness_term(world, c, kf, args):
    node = ast.parse(kf["witness"], mode="eval").body
    m = world.import_module(c.module)
    fv = I.FuncV("<witness>", f"{c.module}.<witness {kf['id']}>", node, m.env, m)
    ip = I.Interp(world)
    ip.pure = 1
    t = ip.truth(call_clause(ip, fv, args))
    return to_bool_term(t)


def snapshot(v):
    """copy of the mutable parts of an input (for `old` in postconditions)"""
    if isinstance(v, Rec) and v.mutable:
        return Rec(v.cls, {k: snapshot(x) for k, x in v.f.items()}, True)
    if isinstance(v, (MapV, PredSetV)):
        return v.snapshot()
    if isinstance(v, I.NS):
        return I.NS(**{k: snapshot(x) for k, x in v.__dict__.items()})
    if isinstance(v, list):
        # ghost objects and unknown-length sequences inside a list are snapshotted too (they can
        # change in place); records keep their identity, as before
        return [snapshot(x) if isinstance(x, (I.NS, SeqV)) else x for x in v]
    if isinstance(v, dict):
        return dict(v)
    if isinstance(v, SeqV):
        return SeqV(v.length, v.get, v.kind, v.name)
    return v


def _positional(func, argv):
    a = func.node.args
    names = [p.arg for p in a.posonlyargs + a.args]
    pos = []
    kw = {}
    for k, v in argv.items():
        if a.vararg and k == a.vararg.arg:
            continue
        if k == "old":
            continue
        kw[k] = v
    args = []
    if a.vararg and a.vararg.arg in argv:
        # all named positional params must be given positionally then
        for n in names:
            args.append(kw.pop(n))
        args.extend(argv[a.vararg.arg])
    return args, kw


def n_variants(c):
    return len(S.expand_oneof(list(c.args.items())))


def verify_contract(world, c, tier="quick", loop_support=None, known=None, only_variant=None):
    """returns dict with obligations (verdicts), covers, meta.  Raises EngineError."""
    t_start = time.time()
    timeout = c.timeout_s or (10 if tier == "quick" else 60)
    ip0 = I.Interp(world)
    meta = {"target": c.target, "contract": f"{c.module}.{c.name}", "props": c.props, "kind": c.kind}
    if c.kind == "lemma":
        func = None
    else:
        func = resolve_function(world, ip0, c.target, None)
        meta["file"] = os.path.relpath(func.module.path, world.repo) if func.module.path.startswith(world.repo) else func.module.path
        meta["source_sha256"] = source_sha(func)
        meta["lineno"] = func.node.lineno

    variants = S.expand_oneof(list(c.args.items()))
    obls = []
    covers = {"paths": 0, "sat": 0, "unknown": 0, "returns": 0, "raises": 0}
    used_contracts, used_inlined = set(), set()
    path_no = [0]

    for vi, variant in enumerate(variants):
        if only_variant is not None and vi != only_variant:
            continue
        vtag = f"v{vi}." if len(variants) > 1 else ""

        def run(ip, variant=variant, vtag=vtag):
            mk_ = S.Maker(ip)
            argv = {}
            for name, sh in variant:
                argv[name] = mk_.make(sh, name)
            free = {}
            for name, sh in c.free.items():
                free[name] = mk_.make(sh, "free." + name)
            for t in mk_.side:
                ip.assume(t)
            ip.inputs = dict(argv)
            ip.inputs.update({"free." + k: v for k, v in free.items()})
            allv = dict(argv)
            allv.update(free)
            allv["old"] = I.NS(**{k: snapshot(v) for k, v in allv.items()})
            ip.pure += 1
            try:
                for r in c.requires:
                    t = ip.truth(bool_clause(ip, r, allv))
                    ip.assume(to_bool_term(t) if not isinstance(t, bool) else t)
            finally:
                ip.pure -= 1
            if c.kind == "lemma":
                ip.pure += 1
                try:
                    # `have` steps first: proved in order, then assumed
                    res_obls = []
                    for hn, hf in c.have.items():
                        t = ip.truth(bool_clause(ip, hf, allv))
                        tt = to_bool_term(t)
                        res_obls.append((f"have:{hn}", list(ip.pc), tt))
                        ip.assume(tt)
                    t = ip.truth(bool_clause(ip, c.statement, allv))
                finally:
                    ip.pure -= 1
                ip.obligations.extend(res_obls)
                ip.obligations.append(("statement", list(ip.pc), to_bool_term(t)))
                return PathResult("lemma", None, list(ip.pc), argv, list(ip.obligations), ip)
            f = func
            if c.free:
                f = resolve_function(world, ip, c.target, free)
            if c.globals_:
                gvals = {name: mk_.make(sh, "global." + name) for name, sh in c.globals_.items()}
                for t in mk_.side:
                    ip.assume(t)
                f = I.FuncV(f.name, f.qualname, f.node, I.Env(gvals, f.env, f.module), f.module, f.owner, f.kind)
                allv.update({"g_" + k: v for k, v in gvals.items()})
            ip.top_func = f
            ip.top_contract = c
            # callees this contract wants executed from source although they have a modular
            # summary (the world is per process and contracts are verified one at a time)
            world.inline = set(c.inline)
            # summaries that are only in force while this contract is verified (`stubs`)
            base = getattr(world, "base_contracts", None)
            if base is not None:
                world.contracts = dict(base)
                for t_ in c.stubs:
                    if t_ not in world.local_stubs:
                        raise EngineError(f"{c.name}: no local stub for {t_}")
                    world.contracts[t_] = world.local_stubs[t_]
            ip.abstract_round = c.abstract_round
            if loop_support is not None:
                loop_support.install(ip, c, f, allv)
            args, kw = _positional(f, argv)
            try:
                val = ip.call_function(f, args, kw)
                kind = "return"
            except PyRaise as pr:
                val = pr.exc
                kind = "raise"
            except I.PathPruned:
                if ip.obligations:
                    return PathResult("pruned", None, list(ip.pc), allv, list(ip.obligations), ip)
                raise
            return PathResult(kind, val, list(ip.pc), allv, list(ip.obligations), ip)

        results = explore(world, run)
        for pr in results:
            k = path_no[0]
            path_no[0] += 1
            covers["paths"] += 1
            if pr.kind == "pruned" and not pr.obligations:
                covers["paths"] -= 1
                continue
            used_contracts |= pr.used_contracts
            used_inlined |= pr.used_inlined
            ptag = f"{vtag}path{k}"
            for (nm, pc, goal) in pr.obligations:
                obls.append(Obl(f"{nm}@{ptag}", pc, goal, nm.split(":")[0], k, pr.args))
            if pr.kind == "lemma":
                covers["returns"] += 1
                continue
            if pr.kind == "pruned":
                covers["paths"] -= 1
                covers["loop_bodies"] = covers.get("loop_bodies", 0) + 1
                continue
            # evaluate the post-state clauses on this path
            V._counter[0] = 10_000_000 + k * 1000
            ipc = I.Interp(world)
            ipc.pure = 1
            for t in pr.pc:
                ipc.pc.append(t)
            av = dict(pr.args)
            av["calls"] = pr.calls
            pr.args["calls"] = pr.calls
            if pr.kind == "return":
                covers["returns"] += 1
                av["result"] = pr.value
                proved_so_far = []
                rs_ = c.returns
                if isinstance(rs_, S.Shape) and rs_.kind in ("int", "real", "bool", "str"):
                    # the contract declares a scalar result: None is a failed obligation, and an
                    # optional value must be present (the clauses then speak about its value)
                    if pr.value is None:
                        obls.append(Obl(f"post:result-is-not-None@{ptag}", pr.pc, z3.BoolVal(False), "post", k, pr.args, {"result": pr.value}))
                        continue
                    if isinstance(pr.value, V.Opt):
                        obls.append(Obl(f"post:result-is-not-None@{ptag}", pr.pc, to_bool_term(V.Sym(pr.value.present, "bool")), "post", k, pr.args, {"result": pr.value}))
                        av["result"] = pr.value.value
                for nm, cl in c.ensures.items():
                    note = None
                    try:
                        t = ipc.truth(bool_clause(ipc, cl, av))
                    except PyRaise as e_:
                        if e_.exc.cls_name in ("KeyError", "IndexError") and "calls" in [p_.arg for p_ in cl.node.args.args]:
                            # the clause names a call (ghost witness) that did not happen on
                            # this path: the expected structure is gone -> the clause fails
                            t, note = False, f"clause refers to a call that did not happen on this path: {e_.exc!r}"
                        else:
                            raise
                    hints = lemma_instances(world, ipc, c, nm, av)
                    goal = to_bool_term(t)
                    obls.append(Obl(f"post:{nm}@{ptag}", pr.pc + ipc.pc[len(pr.pc):] + hints + (proved_so_far if c.chain else []), goal, "post", k, pr.args, {"result": pr.value}))
                    proved_so_far = proved_so_far + [goal]
                for exc, cond in c.raises.items():
                    t = ipc.truth(bool_clause(ipc, cond, pr.args))
                    obls.append(Obl(f"raises:{exc}-if@{ptag}", pr.pc, to_bool_term(b_not(t)), "raises", k, pr.args, {"result": pr.value}))
                for exc, cond in c.raises_if.items():
                    t = ipc.truth(bool_clause(ipc, cond, pr.args))
                    obls.append(Obl(f"must-raise:{exc}-if@{ptag}", pr.pc, to_bool_term(b_not(t)), "raises", k, pr.args, {"result": pr.value}))
            else:
                covers["raises"] += 1
                exc = pr.value.cls_name
                matched = None
                for e2 in c.raises:
                    if I.exc_isa(exc, e2):
                        matched = e2
                if matched is not None:
                    t = ipc.truth(bool_clause(ipc, c.raises[matched], pr.args))
                    obls.append(Obl(f"raises:{matched}-only-if@{ptag}", pr.pc, to_bool_term(t), "raises", k, pr.args, {"raised": exc}))
                elif any(I.exc_isa(exc, e2) for e2 in c.may_raise) or any(I.exc_isa(exc, e2) for e2 in c.raises_if):
                    pass
                else:
                    obls.append(Obl(f"no-unexpected:{exc}@{ptag}", pr.pc, z3.BoolVal(False), "raises", k, pr.args, {"raised": exc}))
            # cover: is this path really reachable?
            s = z3.Solver()
            s.set("timeout", 3000)
            for t in pr.pc:
                s.add(t)
            r = s.check()
            if r == z3.sat:
                covers["sat"] += 1
            elif r == z3.unknown:
                covers["unknown"] += 1

    out_obls = []
    for o in obls:
        r = solve(o.pc, o.goal, timeout)
        rec = {"name": o.name, "kind": o.kind, "verdict": r["verdict"], "backend": r["backend"], "time": round(r["time"], 4)}
        if r["verdict"] == "sat" and known:
            for kf in known:
                if not o.name.split("@")[0].startswith(kf.get("clause", "\0")):
                    continue
                try:
                    wt = witness_term(world, c, kf, o.inputs or {})
                except Exception as e:  # noqa: BLE001
                    rec["known_error"] = repr(e)
                    continue
                r2 = solve(o.pc + [z3.Not(wt)], o.goal, timeout)
                rec["time"] = round(rec["time"] + r2["time"], 4)
                if r2["verdict"] == "unsat":
                    # every counterexample lies inside the recorded witness class
                    rec.update({"verdict": "unsat", "backend": r2["backend"], "known": {"id": kf["id"], "description": kf["description"]}, "known_witness_model": {k: S.to_json(v, r["model"]) for k, v in (o.inputs or {}).items() if k not in ("calls", "old")}})
                    r = r2
                else:
                    r = r2
                    rec["verdict"] = r2["verdict"]
                    rec["note"] = f"fails outside the witness class of known finding {kf['id']}"
                break
        if r["verdict"] == "sat" and "model" in r:
            try:
                rec["model_args"] = {k: S.to_json(v, r["model"]) for k, v in (o.inputs or {}).items() if k not in ("calls", "old")}
                for ek, ev in o.extra.items():
                    rec["model_" + ek] = S.to_json(ev, r["model"]) if not isinstance(ev, str) else ev
            except Exception as e:  # model printing must never hide a verdict
                rec["model_error"] = repr(e)
        if r["verdict"] != "unsat":
            try:
                rec["smt2"] = smt2_of(o.pc, o.goal)
            except Exception:
                pass
            if "reason" in r:
                rec["reason"] = r["reason"]
        out_obls.append(rec)
    meta.update(
        {
            "scope": c.scope,
            "dep": c.dep,
            "obligations": out_obls,
            "covers": covers,
            "used_contracts": sorted(used_contracts),
            "inlined": sorted(used_inlined),
            "wall_s": round(time.time() - t_start, 3),
        }
    )
    if obls:
        o = obls[0]
        try:
            meta["sample_smt2"] = {"name": o.name, "smt2": smt2_of(o.pc, o.goal)[:4000]}
        except Exception:
            pass
    return meta
