"""Mixed concrete/symbolic interpreter over the Python AST of the real source files.

The interpreter re-reads the files on every run (ModuleV), never imports them.  One
`Interp` object executes ONE path; `explore()` in prover.py drives it depth-first with a
decision vector (every symbolic branch consults the vector).
"""
import ast
import os
import sys
from fractions import Fraction
import z3

from .values import *
from . import ops

MAX_DEPTH = 60
MAX_LOOP = 4000


class ReturnSig(Exception):
    def __init__(self, value):
        self.value = value


class BreakSig(Exception):
    pass


class ContinueSig(Exception):
    pass


class PathPruned(Exception):
    """the current path is infeasible (assume(False))"""


# --------------------------------------------------------------------------- modules


class Env:
    __slots__ = ("vars", "parent", "module")

    def __init__(self, vars=None, parent=None, module=None):
        self.vars = {} if vars is None else vars
        self.parent = parent
        self.module = module if module is not None else (parent.module if parent else None)

    def lookup(self, name, interp):
        e = self
        while e is not None:
            if name in e.vars:
                return e.vars[name]
            e = e.parent
        if self.module is not None and self.module.has(name):
            return self.module.get(name, interp)
        return interp.builtin(name)


class ModuleV:
    def __init__(self, world, name, path):
        self.world = world
        self.name = name
        self.path = path
        self.src = open(path).read()
        self.tree = ast.parse(self.src)
        self.vals = {}
        self.defs = {}
        self._busy = set()
        self._index(self.tree.body)
        self.env = Env(self.vals, None, self)

    def _index(self, body):
        for st in body:
            if isinstance(st, (ast.FunctionDef, ast.ClassDef)):
                self.defs[st.name] = st
            elif isinstance(st, ast.Assign):
                for t in st.targets:
                    for n in _target_names(t):
                        self.defs[n] = st
            elif isinstance(st, ast.AnnAssign) and isinstance(st.target, ast.Name):
                if st.value is not None:
                    self.defs[st.target.id] = st
            elif isinstance(st, ast.Import):
                for a in st.names:
                    self.defs[(a.asname or a.name).split(".")[0]] = st
            elif isinstance(st, ast.ImportFrom):
                for a in st.names:
                    self.defs[a.asname or a.name] = st
            elif isinstance(st, (ast.If, ast.Try)):
                # e.g. `try: import x except ImportError:` -- index the first branch
                self._index(st.body)

    def has(self, name):
        return name in self.vals or name in self.defs

    def get(self, name, interp):
        if name in self.vals:
            return self.vals[name]
        st = self.defs.get(name)
        if st is None:
            raise EngineError(f"module {self.name} has no attribute {name}")
        if name in self._busy:
            raise EngineError(f"cyclic module-level definition {self.name}.{name}")
        self._busy.add(name)
        try:
            sub = interp.sub_interp_for_module(self)
            if isinstance(st, ast.Import):
                for a in st.names:
                    if a.asname:
                        self.vals[a.asname] = self.world.import_module(a.name, interp)
                    else:
                        top = a.name.split(".")[0]
                        self.vals[top] = self.world.import_module(top, interp)
            elif isinstance(st, ast.ImportFrom):
                modname = self.world.resolve_relative(self.name, st.module, st.level, self.path)
                for a in st.names:
                    if (a.asname or a.name) == name:
                        m = self.world.import_module(modname, interp)
                        self.vals[name] = sub.getattr_v(m, a.name, submodule_of=modname)
            else:
                sub.exec_stmt(st, self.env)
        finally:
            self._busy.discard(name)
        if name not in self.vals:
            raise EngineError(f"evaluating {self.name}.{name} did not define it")
        return self.vals[name]


def _target_names(t):
    if isinstance(t, ast.Name):
        return [t.id]
    if isinstance(t, (ast.Tuple, ast.List)):
        r = []
        for e in t.elts:
            r += _target_names(e)
        return r
    return []


class World:
    """Module loader + registry of contracts used for modular calls."""

    def __init__(self, roots, interpret_prefixes):
        self.roots = roots
        self.prefixes = tuple(interpret_prefixes)
        self.modules = {}
        self.contracts = {}  # qualname -> contract object (prover.Contract)
        self.inline = set()  # qualnames forced inline

    def interpreted(self, name):
        return any(name == p or name.startswith(p + ".") for p in self.prefixes)

    def find(self, name):
        rel = name.replace(".", "/")
        for r in self.roots:
            for cand in (os.path.join(r, rel + ".py"), os.path.join(r, rel, "__init__.py")):
                if os.path.isfile(cand):
                    return cand
        return None

    def resolve_relative(self, cur, module, level, path):
        if not level:
            return module
        parts = cur.split(".")
        if not path.endswith("__init__.py"):
            parts = parts[:-1]
        parts = parts[: len(parts) - (level - 1)]
        return ".".join(parts + ([module] if module else []))

    def import_module(self, name, interp=None):
        if name in self.modules:
            return self.modules[name]
        if self.interpreted(name):
            p = self.find(name)
            if p is None:
                raise EngineError(f"cannot find source of module {name}")
            m = ModuleV(self, name, p)
            self.modules[name] = m
            return m
        return ExternalV(name)


class FuncV:
    def __init__(self, name, qualname, node, env, module, owner=None, kind="function"):
        self.name = name
        self.qualname = qualname
        self.node = node
        self.env = env
        self.module = module
        self.owner = owner
        self.kind = kind
        self.is_gen = _has_yield(node)

    def __repr__(self):
        return f"<func {self.qualname}>"


def _has_yield(node):
    body = node.body if isinstance(node.body, list) else [node.body]
    stack = list(body)
    while stack:
        n = stack.pop()
        if isinstance(n, (ast.Yield, ast.YieldFrom)):
            return True
        if isinstance(n, (ast.FunctionDef, ast.Lambda, ast.ClassDef)):
            continue
        stack.extend(ast.iter_child_nodes(n))
    return False


class BoundMethod:
    def __init__(self, func, self_v):
        self.func = func
        self.self_v = self_v


class PyFn:
    """builtin implemented in Python: fn(interp, args, kwargs)"""

    def __init__(self, name, fn):
        self.name = name
        self.fn = fn

    def __repr__(self):
        return f"<builtin {self.name}>"


class StarSeq:
    """`*seq` at a call site where seq has unknown length"""

    def __init__(self, seq):
        self.seq = seq


class GenV:
    def __init__(self, items):
        self.items = list(items)
        self.pos = 0


class NS:
    """simple attribute bag (dataclasses.Field stand-in, ghost records...)"""

    def __init__(*a, **kw):
        a[0].__dict__.update(kw)


class AssocV:
    """dict of known size whose keys may be symbolic: an association list; keys are
    pairwise distinct on the current path (every insertion forks on equality)"""

    def __init__(self, items):
        self.items = list(items)

    def contains(self, ip, x):
        return b_or(*[ip.eq(x, k) for k, _ in self.items])

    def set_item(self, ip, k, v):
        for i, (ki, vi) in enumerate(self.items):
            if ip.branch(ip.eq(k, ki)):
                self.items[i] = (ki, v)
                return
        self.items.append((k, v))

    def get_item(self, ip, k):
        for ki, vi in self.items:
            if ip.branch(ip.eq(k, ki)):
                return vi
        raise PyRaise(ExcV("KeyError", ()))

    def iterate(self, ip):
        return [k for k, _ in self.items]

    def length(self, ip):
        return len(self.items)

    def truthy(self):
        return len(self.items) > 0

    def get_attr(self, ip, name):
        if name == "items":
            return PyFn("items", lambda ip_, a, k: list(self.items))
        if name == "keys":
            return PyFn("keys", lambda ip_, a, k: [x for x, _ in self.items])
        if name == "values":
            return PyFn("values", lambda ip_, a, k: [y for _, y in self.items])
        if name == "get":
            def get(ip_, a, k):
                for ki, vi in self.items:
                    if ip_.branch(ip_.eq(a[0], ki)):
                        return vi
                return a[1] if len(a) > 1 else None
            return PyFn("get", get)
        raise EngineError(f"dict.{name} on a symbolic-key dict")


class EnumMember:
    def __init__(self, cls, name, value):
        self.cls = cls
        self.name = name
        self.value = value

    def __repr__(self):
        return f"{self.cls.name}.{self.name}"


class ExcClass:
    def __init__(self, name):
        self.name = name

    def __repr__(self):
        return f"<exc class {self.name}>"


EXC_PARENTS = {
    "BaseException": None,
    "Exception": "BaseException",
    "ArithmeticError": "Exception",
    "OverflowError": "ArithmeticError",
    "ZeroDivisionError": "ArithmeticError",
    "AssertionError": "Exception",
    "AttributeError": "Exception",
    "LookupError": "Exception",
    "IndexError": "LookupError",
    "KeyError": "LookupError",
    "NameError": "Exception",
    "TypeError": "Exception",
    "ValueError": "Exception",
    "NotImplementedError": "RuntimeError",
    "RuntimeError": "Exception",
    "StopIteration": "Exception",
    "OSError": "Exception",
    "IOError": "Exception",
    "FileNotFoundError": "OSError",
}


def exc_isa(name, parent):
    while name is not None:
        if name == parent:
            return True
        name = EXC_PARENTS.get(name)
    return False


class ClassV:
    def __init__(self, module, node, env, interp):
        # a class body runs at import time in CPython: calls made while it is evaluated
        # (field defaults such as `color: Color = Color.fromstring("black")`) are not part of
        # the call under verification and stay out of its ghost call log
        interp.defining = getattr(interp, "defining", 0) + 1
        try:
            self._init(module, node, env, interp)
        finally:
            interp.defining -= 1

    def _init(self, module, node, env, interp):
        self.module = module
        self.node = node
        self.name = node.name
        self.qualname = f"{module.name}.{node.name}"
        self.env = env
        self.bases = [interp.eval(b, env) for b in node.bases]
        self.decos = [_deco_name(d) for d in node.decorator_list]
        self.attrs = {}
        self.fields = []  # (name, ann_node, default_node)
        self.kind = "plain"
        bn = [getattr(b, "name", None) or getattr(b, "qual", "") for b in self.bases]
        if any(str(b).endswith("NamedTuple") for b in bn):
            self.kind = "namedtuple"
        elif "dataclass" in self.decos:
            self.kind = "dataclass"
        elif any(isinstance(b, ExternalV) and b.qual in ("enum.Enum", "enum.IntEnum") for b in self.bases):
            self.kind = "enum"
        self.members = []
        self._build(interp)

    def _build(self, interp):
        cenv = Env(self.attrs, self.env, self.module)
        for st in self.node.body:
            if isinstance(st, ast.FunctionDef):
                kind = "function"
                for d in st.decorator_list:
                    dn = _deco_name(d)
                    if dn in ("classmethod", "staticmethod", "property"):
                        kind = dn
                    elif dn in ("abstractmethod", "overload"):
                        kind = kind if dn == "abstractmethod" else "overload"
                if kind == "overload":
                    continue
                self.attrs[st.name] = FuncV(
                    st.name, f"{self.qualname}.{st.name}", st, self.env, self.module, self, kind
                )
            elif isinstance(st, ast.AnnAssign) and isinstance(st.target, ast.Name):
                ann = ast.unparse(st.annotation)
                if ann.startswith("ClassVar"):
                    if st.value is not None:
                        try:
                            self.attrs[st.target.id] = interp.eval(st.value, cenv)
                        except EngineError as e:
                            self.attrs[st.target.id] = ExternalV(f"<unevaluated {self.name}.{st.target.id}: {e}>")
                elif self.kind in ("namedtuple", "dataclass"):
                    self.fields.append((st.target.id, st.annotation, st.value))
                    if st.value is not None:
                        # a field default is also a class attribute (visible to later
                        # statements of the class body, e.g. as a parameter default)
                        try:
                            self.attrs[st.target.id] = interp.eval(st.value, cenv)
                        except (EngineError, PyRaise):
                            pass
                elif st.value is not None:
                    self.attrs[st.target.id] = interp.eval(st.value, cenv)
            elif isinstance(st, ast.Assign):
                v = interp.eval(st.value, cenv)
                for t in st.targets:
                    if isinstance(t, ast.Name):
                        if self.kind == "enum" and not t.id.startswith("_"):
                            mem = EnumMember(self, t.id, v)
                            self.attrs[t.id] = mem
                            self.members.append(mem)
                        else:
                            self.attrs[t.id] = v
            elif isinstance(st, (ast.Expr, ast.Pass)):
                pass  # docstring / ...
            else:
                raise EngineError(f"class body statement {ast.dump(st)[:80]}")
        self.cenv = cenv

    def mro(self):
        out = [self]
        for b in self.bases:
            if isinstance(b, ClassV):
                for c in b.mro():
                    if c not in out:
                        out.append(c)
        return out

    def all_fields(self):
        if self.kind == "namedtuple":
            return self.fields
        fs = []
        for c in reversed(self.mro()):
            if c.kind == "dataclass":
                for f in c.fields:
                    fs = [g for g in fs if g[0] != f[0]] + [f]
        return fs

    def lookup(self, name):
        for c in self.mro():
            if name in c.attrs:
                return c.attrs[name]
        return None

    def issubclass_of(self, other):
        return other in self.mro()

    def __repr__(self):
        return f"<class {self.qualname}>"


def _deco_name(d):
    if isinstance(d, ast.Call):
        d = d.func
    if isinstance(d, ast.Attribute):
        return d.attr
    if isinstance(d, ast.Name):
        return d.id
    return ""


# --------------------------------------------------------------------------- interpreter


class Interp:
    def __init__(self, world, decisions=None, solver_timeout_ms=1500):
        self.world = world
        self.decisions = decisions if decisions is not None else []
        self.dpos = 0
        self.pc = []
        self.solver = z3.Solver()
        self.solver.set("timeout", solver_timeout_ms)
        self.pure = 0
        self.depth = 0
        self.yields = []
        self.obligations = []  # (name, [pc terms], goal term)
        self.top_func = None
        self.trace = []
        self.loop_hook = None
        self.inputs = {}
        self.notes = []
        self.used_contracts = set()
        self.used_inlined = set()
        self.call_log = {}
        from . import builtins_ as B

        self.B = B

    # ---- path condition

    def assume(self, t):
        if isinstance(t, bool):
            if not t:
                raise PathPruned()
            return
        if isinstance(t, Sym):
            t = t.t
        self.pc.append(t)
        self.solver.add(t)

    def check(self, extra):
        self.solver.push()
        self.solver.add(extra)
        r = self.solver.check()
        self.solver.pop()
        return r

    def branch(self, cond):
        """Decide a (possibly symbolic) condition on this path."""
        if isinstance(cond, bool):
            return cond
        if not isinstance(cond, Sym):
            cond = self.truth(cond)
            if isinstance(cond, bool):
                return cond
        t = cond.t if cond.sort == "bool" else to_bool_term(cond)
        if self.pure:
            raise EngineError("symbolic branch inside a pure (specification) context; use a conditional expression")
        if self.dpos < len(self.decisions):
            val = self.decisions[self.dpos][0]
        else:
            rt = self.check(t)
            rf = self.check(z3.Not(t))
            if rt == z3.unsat and rf == z3.unsat:
                raise PathPruned()
            if rt == z3.unsat:
                self.decisions.append([False, False])
            elif rf == z3.unsat:
                self.decisions.append([True, False])
            else:
                self.decisions.append([True, True])
            val = self.decisions[self.dpos][0]
        self.dpos += 1
        self.assume(t if val else z3.Not(t))
        return val

    def sub_interp_for_module(self, module):
        return self

    # ---- helpers

    def builtin(self, name):
        v = self.B.lookup(name)
        if v is None:
            raise PyRaise(ExcV("NameError", (name,)))
        return v

    def truth(self, v):
        if v is None:
            return False
        if isinstance(v, (bool, int, Fraction, str)):
            return bool(v)
        if isinstance(v, Sym):
            return v if v.sort == "bool" else mk(to_bool_term(v), "bool")
        if isinstance(v, (tuple, list, dict, set, frozenset, range)):
            return len(v) > 0
        if isinstance(v, SeqV):
            return mk(v.length > 0, "bool")
        if isinstance(v, Opt):
            inner = self.truth(v.value)
            return b_and(Sym(v.present, "bool"), inner)
        if isinstance(v, Rec):
            ln = v.cls.lookup("__len__")
            if ln is not None:
                return ops.cmp_num("!=", self.call_function(ln, [v], {}), 0)
            return True
        if isinstance(v, GenV):
            return True
        h = getattr(v, "truthy", None)
        if h is not None:
            return h()
        if hasattr(v, "__len__") and not isinstance(v, (Rec,)):
            try:
                return len(v) > 0
            except TypeError:
                pass
        return True

    # ---- statements

    def exec_block(self, body, env):
        for st in body:
            self.exec_stmt(st, env)

    def exec_stmt(self, st, env):
        m = getattr(self, "x_" + type(st).__name__, None)
        if m is None:
            raise EngineError(f"unsupported statement {type(st).__name__} at line {st.lineno}")
        return m(st, env)

    def x_Expr(self, st, env):
        if isinstance(st.value, ast.Constant):
            return
        self.eval(st.value, env)

    def x_Pass(self, st, env):
        pass

    def x_Import(self, st, env):
        for a in st.names:
            if a.asname:
                env.vars[a.asname] = self.world.import_module(a.name, self)
            else:
                top = a.name.split(".")[0]
                env.vars[top] = self.world.import_module(top, self)

    def x_ImportFrom(self, st, env):
        mod = env.module
        modname = self.world.resolve_relative(mod.name, st.module, st.level, mod.path)
        m = self.world.import_module(modname, self)
        for a in st.names:
            env.vars[a.asname or a.name] = self.getattr_v(m, a.name, submodule_of=modname)

    def x_FunctionDef(self, st, env):
        owner_q = env.vars.get("__qualname__", None)
        q = f"{owner_q}.<locals>.{st.name}" if owner_q else f"{env.module.name}.{st.name}"
        env.vars[st.name] = FuncV(st.name, q, st, env, env.module)

    def x_ClassDef(self, st, env):
        env.vars[st.name] = ClassV(env.module, st, env, self)

    def x_Return(self, st, env):
        raise ReturnSig(self.eval(st.value, env) if st.value is not None else None)

    def x_Assign(self, st, env):
        v = self.eval(st.value, env)
        for t in st.targets:
            self.assign(t, v, env)

    def x_AnnAssign(self, st, env):
        if st.value is not None:
            self.assign(st.target, self.eval(st.value, env), env)

    def x_AugAssign(self, st, env):
        if isinstance(st.target, ast.Name):
            cur = env.lookup(st.target.id, self)
            if isinstance(cur, list) and isinstance(st.op, ast.Add):
                cur.extend(self.iterate(self.eval(st.value, env)))
                return
        cur = self.eval(_as_load(st.target), env)
        v = self.binop(st.op, cur, self.eval(st.value, env))
        self.assign(st.target, v, env)

    def assign(self, t, v, env):
        if isinstance(t, ast.Name):
            env.vars[t.id] = v
        elif isinstance(t, (ast.Tuple, ast.List)):
            items = self.iterate(v)
            starred = [i for i, e in enumerate(t.elts) if isinstance(e, ast.Starred)]
            if starred:
                raise EngineError("starred assignment")
            if len(items) != len(t.elts):
                raise PyRaise(ExcV("ValueError", ("unpack",)))
            for e, x in zip(t.elts, items):
                self.assign(e, x, env)
        elif isinstance(t, ast.Attribute):
            obj = self.eval(t.value, env)
            self.setattr_v(obj, t.attr, v)
        elif isinstance(t, ast.Subscript):
            obj = self.eval(t.value, env)
            idx = self.eval(t.slice, env)
            self.setitem(obj, idx, v, t, env)
        else:
            raise EngineError(f"assign target {type(t).__name__}")

    def setattr_v(self, obj, name, v):
        if isinstance(obj, Rec):
            if not obj.mutable:
                raise PyRaise(ExcV("AttributeError", ("frozen",)))
            obj.f[name] = v
        elif isinstance(obj, NS):
            setattr(obj, name, v)
        else:
            h = getattr(obj, "set_attr", None)
            if h:
                h(self, name, v)
            else:
                raise EngineError(f"setattr on {obj!r}")

    def setitem(self, obj, idx, v, node=None, env=None):
        if isinstance(obj, list):
            if isinstance(idx, Sym):
                # symbolic index into a concrete-length list: every slot may be the one
                n = len(obj)
                ok = b_and(ops.cmp_num(">=", idx, -n), ops.cmp_num("<", idx, n))
                if not self.branch(ok):
                    raise PyRaise(ExcV("IndexError", ()))
                for k in range(n):
                    hit = b_or(ops.cmp_num("==", idx, k), ops.cmp_num("==", idx, k - n))
                    obj[k] = self.ite_val(hit, v, obj[k])
                return
            try:
                obj[idx] = v
            except IndexError:
                raise PyRaise(ExcV("IndexError", ()))
        elif isinstance(obj, dict):
            if _has_sym(idx):
                a = AssocV(list(obj.items()))
                if isinstance(node, ast.Subscript) and isinstance(node.value, ast.Name):
                    self._rebind(env, node.value.id, a)
                elif isinstance(node, ast.Subscript) and isinstance(node.value, ast.Attribute):
                    # the dict is a field of an object: replace the field
                    self.setattr_v(self.eval(node.value.value, env), node.value.attr, a)
                else:
                    raise EngineError("symbolic key stored into a dict that is not a local name or a field")
                a.set_item(self, idx, v)
                return
            obj[self.hashable(idx)] = v
        elif isinstance(obj, SeqV) and isinstance(idx, slice) and idx.start is None and idx.stop is None and idx.step is None:
            # x[:] = y  -- the object itself changes (callers and postconditions see it);
            # every derived sequence captured the old accessor when it was built
            if isinstance(v, SeqV):
                obj.length, obj.get = v.length, v.get
            else:
                new = seq_of_list(self, self.iterate(v))
                obj.length, obj.get = new.length, new.get
        elif isinstance(obj, SeqV):
            if not (isinstance(node, ast.Subscript) and isinstance(node.value, ast.Name)):
                raise EngineError("store into a symbolic sequence that is not a local name")
            i = term(idx, "int")
            inb = mk(z3.And(i >= -obj.length, i < obj.length), "bool")
            if not self.branch(inb):
                raise PyRaise(ExcV("IndexError", ()))
            ii = z3.If(i >= 0, i, i + obj.length)
            old = obj.get
            newget = lambda j, old=old, ii=ii, v=v: self.ite_val(mk(j == ii, "bool"), v, old(j))
            env_set = SeqV(obj.length, newget, obj.kind, obj.name)
            self.assign(node.value, env_set, env)
        elif isinstance(obj, Rec) and obj.cls.kind != "namedtuple" and obj.cls.lookup("__setitem__"):
            self.call_function(obj.cls.lookup("__setitem__"), [obj, idx, v], {})
        else:
            h = getattr(obj, "set_item", None)
            if h:
                h(self, idx, v)
            else:
                raise EngineError(f"setitem on {obj!r}")

    def hashable(self, k):
        if isinstance(k, Sym):
            raise EngineError("symbolic dict key")
        if isinstance(k, list):
            raise PyRaise(ExcV("TypeError", ("unhashable",)))
        return k

    def x_If(self, st, env):
        if self.branch(self.cond(st.test, env)):
            self.exec_block(st.body, env)
        else:
            self.exec_block(st.orelse, env)

    def cond(self, test, env):
        return self.truth(self.eval(test, env))

    def x_Assert(self, st, env):
        if not self.branch(self.cond(st.test, env)):
            raise PyRaise(ExcV("AssertionError", ()))

    def x_Raise(self, st, env):
        if st.exc is None:
            if getattr(self, "_handling", None):
                raise PyRaise(self._handling[-1])
            raise EngineError("bare raise outside handler")
        e = self.eval(st.exc, env)
        if isinstance(e, ExcClass):
            e = ExcV(e.name, ())
        if not isinstance(e, ExcV):
            raise EngineError(f"raise of {e!r}")
        raise PyRaise(e)

    def x_Try(self, st, env):
        try:
            try:
                self.exec_block(st.body, env)
            except PyRaise as pr:
                for h in st.handlers:
                    if self._handler_matches(h, pr.exc, env):
                        if h.name:
                            env.vars[h.name] = pr.exc
                        self._handling = getattr(self, "_handling", []) + [pr.exc]
                        try:
                            self.exec_block(h.body, env)
                        finally:
                            self._handling = self._handling[:-1]
                        break
                else:
                    raise
            else:
                self.exec_block(st.orelse, env)
        finally:
            if st.finalbody:
                self.exec_block(st.finalbody, env)

    def _handler_matches(self, h, exc, env):
        if h.type is None:
            return True
        t = self.eval(h.type, env)
        ts = t if isinstance(t, tuple) else (t,)
        for c in ts:
            if isinstance(c, ExcClass) and exc_isa(exc.cls_name, c.name):
                return True
            if isinstance(c, ExternalV) and c.qual.split(".")[-1] == exc.cls_name:
                return True
        return False

    def x_For(self, st, env):
        it = self.eval(st.iter, env)
        if (isinstance(it, (SeqV, SetV)) or (hasattr(it, "lo") and hasattr(it, "hi"))) and self.loop_hook is not None:
            if not (isinstance(it, SeqV) and z3.is_int_value(z3.simplify(it.length))):
                r = self.loop_hook(self, st, env, it)
                if r is not NotImpl:
                    return r
        if hasattr(it, "lo") and hasattr(it, "hi") and not isinstance(it, range):
            # symbolic range without invariant: unroll while the bound may still hold
            # (terminates only when the contract bounds the range: finite scope)
            k = 0
            while True:
                cur = ops.add(it.lo, k)
                if not self.branch(ops.cmp_num("<", cur, it.hi)):
                    break
                if k > 64:
                    raise EngineError(f"loop at line {st.lineno}: symbolic range not bounded by the contract (needs an invariant)")
                self.assign(st.target, cur, env)
                try:
                    self.exec_block(st.body, env)
                except BreakSig:
                    return
                except ContinueSig:
                    pass
                k += 1
            self.exec_block(st.orelse, env)
            return
        items = self.iterate(it)
        broke = False
        for x in items:
            self.assign(st.target, x, env)
            try:
                self.exec_block(st.body, env)
            except BreakSig:
                broke = True
                break
            except ContinueSig:
                continue
        if not broke:
            self.exec_block(st.orelse, env)

    def x_While(self, st, env):
        if self.loop_hook is not None:
            r = self.loop_hook(self, st, env, None)
            if r is not NotImpl:
                return r
        n = 0
        while True:
            c = self.cond(st.test, env)
            if not self.branch(c):
                break
            n += 1
            if n > MAX_LOOP:
                raise EngineError(f"while loop at line {st.lineno} exceeded {MAX_LOOP} iterations")
            try:
                self.exec_block(st.body, env)
            except BreakSig:
                return
            except ContinueSig:
                continue
        self.exec_block(st.orelse, env)

    def x_Break(self, st, env):
        raise BreakSig()

    def x_Continue(self, st, env):
        raise ContinueSig()

    def x_Delete(self, st, env):
        for t in st.targets:
            if isinstance(t, ast.Name):
                env.vars.pop(t.id, None)
            elif isinstance(t, ast.Subscript):
                obj = self.eval(t.value, env)
                idx = self.eval(t.slice, env)
                if isinstance(obj, (dict, list)):
                    try:
                        del obj[idx]
                    except (KeyError, IndexError) as e:
                        raise PyRaise(ExcV(type(e).__name__, ()))
                else:
                    h = getattr(obj, "del_item", None)
                    if not h:
                        raise EngineError("del on unsupported object")
                    h(self, idx)
            else:
                raise EngineError("del target")

    def x_With(self, st, env):
        raise EngineError("with statement")

    def x_Global(self, st, env):
        raise EngineError("global statement")

    def x_Nonlocal(self, st, env):
        raise EngineError("nonlocal statement")

    # ---- expressions

    def eval(self, e, env):
        m = getattr(self, "e_" + type(e).__name__, None)
        if m is None:
            raise EngineError(f"unsupported expression {type(e).__name__}")
        return m(e, env)

    def e_Constant(self, e, env):
        v = e.value
        if isinstance(v, float):
            return ops.conc_float(v)
        if v is Ellipsis:
            return None
        return v

    def e_Name(self, e, env):
        return env.lookup(e.id, self)

    def e_Tuple(self, e, env):
        out = []
        for x in e.elts:
            if isinstance(x, ast.Starred):
                out.extend(self.iterate(self.eval(x.value, env)))
            else:
                out.append(self.eval(x, env))
        return tuple(out)

    def e_List(self, e, env):
        return list(self.e_Tuple(e, env))

    def e_Set(self, e, env):
        return set(self.hashable(x) for x in self.e_Tuple(e, env))

    def e_Dict(self, e, env):
        d = {}
        for k, v in zip(e.keys, e.values):
            if k is None:
                d.update(self.eval(v, env))
            else:
                d[self.hashable(self.eval(k, env))] = self.eval(v, env)
        return d

    def e_JoinedStr(self, e, env):
        parts = []
        symbolic = False
        for p in e.values:
            if isinstance(p, ast.Constant):
                parts.append(p.value)
            else:
                v = self.eval(p.value, env)
                if isinstance(v, bool) or v is None or isinstance(v, (int, str)):
                    if p.format_spec is not None:
                        spec = self.e_JoinedStr(p.format_spec, env)
                        if not isinstance(spec, str):
                            return OpaqueStr()
                        parts.append(format(v, spec))
                    elif p.conversion == 114:
                        parts.append(repr(v))
                    else:
                        parts.append(str(v))
                elif isinstance(v, Sym) and v.sort == "str" and p.format_spec is None and p.conversion == -1:
                    parts.append(v)
                    symbolic = True
                elif isinstance(v, Sym) and v.sort == "int" and p.format_spec is None and p.conversion == -1:
                    # str(n) of a (non-negative) integer; negative ones get an opaque text
                    parts.append(Sym(z3.IntToStr(v.t), "str"))
                    symbolic = True
                else:
                    return OpaqueStr()
        if not symbolic:
            return "".join(parts)
        ts = [term(x, "str") for x in parts if not (isinstance(x, str) and x == "")]
        return Sym(z3.Concat(*ts) if len(ts) > 1 else ts[0], "str")

    def e_Lambda(self, e, env):
        q = env.vars.get("__qualname__") or (env.module.name if env.module else "?")
        return FuncV("<lambda>", f"{q}.<lambda>", e, env, env.module)

    def e_IfExp(self, e, env):
        c = self.cond(e.test, env)
        if isinstance(c, bool):
            return self.eval(e.body if c else e.orelse, env)
        if self.pure:
            a = self.eval(e.body, env)
            b = self.eval(e.orelse, env)
            return self.ite_val(c, a, b)
        return self.eval(e.body if self.branch(c) else e.orelse, env)

    def ite_val(self, c, a, b):
        if isinstance(c, bool):
            return a if c else b
        if a is b:
            return a
        if isinstance(a, Rec) and isinstance(b, Rec):
            if a.cls is not b.cls:
                raise EngineError(f"ite over records of classes {a.cls.name}/{b.cls.name}")
            return Rec(a.cls, {k: self.ite_val(c, a.f[k], b.f[k]) for k in a.f}, a.mutable)
        if isinstance(a, (tuple, list)) and isinstance(b, (tuple, list)) and len(a) == len(b):
            return type(a)(self.ite_val(c, x, y) for x, y in zip(a, b))
        if isinstance(a, Opaque) and isinstance(b, Opaque) and a.tag == b.tag:
            return Opaque(z3.If(to_bool_term(c), a.t, b.t), a.tag)
        if a is None or b is None or isinstance(a, Opt) or isinstance(b, Opt):
            pa, va = self._opt_parts(a)
            pb, vb = self._opt_parts(b)
            ct = to_bool_term(c)
            pres = z3.simplify(z3.If(ct, pa, pb))
            if va is None:
                val = vb
            elif vb is None:
                val = va
            else:
                val = self.ite_val(c, va, vb)
            if z3.is_true(pres):
                return val
            if z3.is_false(pres):
                return None
            return Opt(pres, val)
        if isinstance(a, EnumMember) and isinstance(b, EnumMember):
            if a is b:
                return a
        if isinstance(a, SeqV) and isinstance(b, SeqV):
            ct = to_bool_term(c)
            ga, gb = a.get, b.get
            return SeqV(
                z3.If(ct, a.length, b.length),
                lambda j: self.ite_val(c, ga(j), gb(j)),
                a.kind,
                a.name,
            )
        if isinstance(a, str) and isinstance(b, str) and a == b:
            return a
        return b_ite(c, a, b)

    def _opt_parts(self, v):
        if v is None:
            return z3.BoolVal(False), None
        if isinstance(v, Opt):
            return v.present, v.value
        return z3.BoolVal(True), v

    _SIMPLE = (ast.Name, ast.Constant)

    def _total(self, e):
        """expression whose evaluation cannot raise or have effects (so and/or over it
        need not fork)"""
        if isinstance(e, self._SIMPLE):
            return True
        if isinstance(e, ast.Compare):
            return all(isinstance(o, (ast.Eq, ast.NotEq, ast.Lt, ast.LtE, ast.Gt, ast.GtE)) for o in e.ops) and all(
                self._total(x) for x in [e.left] + e.comparators
            )
        if isinstance(e, ast.BoolOp):
            return all(self._total(x) for x in e.values)
        if isinstance(e, ast.UnaryOp):
            return self._total(e.operand)
        if isinstance(e, ast.BinOp) and isinstance(e.op, (ast.Add, ast.Sub, ast.Mult)):
            return self._total(e.left) and self._total(e.right)
        if isinstance(e, ast.Tuple):
            return all(self._total(x) for x in e.elts)
        return False

    def e_BoolOp(self, e, env):
        is_and = isinstance(e.op, ast.And)
        vals = e.values
        cur = self.eval(vals[0], env)
        for k in range(1, len(vals)):
            t = self.truth(cur)
            if isinstance(t, bool):
                if t != is_and:
                    return cur  # short circuit
                cur = self.eval(vals[k], env)
                continue
            # symbolic truth
            if self.pure or all(self._total(v) for v in vals[k:]):
                rest = self.eval(vals[k], env)
                rt = self.truth(rest)
                if isinstance(cur, Sym) and cur.sort == "bool" and (isinstance(rt, bool) or isinstance(rest, Sym)) and (
                    isinstance(rest, bool) or (isinstance(rest, Sym) and rest.sort == "bool")
                ):
                    cur = b_and(cur, rest) if is_and else b_or(cur, rest)
                else:
                    cur = self.ite_val(t, rest, cur) if is_and else self.ite_val(t, cur, rest)
                continue
            if self.branch(t) != is_and:
                return cur
            cur = self.eval(vals[k], env)
        return cur

    def e_UnaryOp(self, e, env):
        v = self.eval(e.operand, env)
        if isinstance(e.op, ast.Not):
            return b_not(self.truth(v))
        if isinstance(e.op, ast.USub):
            if isinstance(v, Rec):
                f = v.cls.lookup("__neg__")
                if f:
                    return self.call_function(f, [v], {})
            return ops.neg(v)
        if isinstance(e.op, ast.UAdd):
            return v
        if isinstance(e.op, ast.Invert) and isinstance(v, int):
            return ~v
        raise EngineError("unary op")

    def e_BinOp(self, e, env):
        return self.binop(e.op, self.eval(e.left, env), self.eval(e.right, env))

    _DUNDER = {
        ast.Add: "add",
        ast.Sub: "sub",
        ast.Mult: "mul",
        ast.MatMult: "matmul",
        ast.Div: "truediv",
        ast.FloorDiv: "floordiv",
        ast.Mod: "mod",
        ast.Pow: "pow",
    }

    def binop(self, op, a, b):
        T = type(op)
        if isinstance(a, Opt) or isinstance(b, Opt):
            a, b = self.unwrap(a), self.unwrap(b)
        if isinstance(a, Rec) or isinstance(b, Rec):
            nm = self._DUNDER.get(T)
            if nm is None:
                raise EngineError("binop on record")
            if isinstance(a, Rec):
                f = a.cls.lookup(f"__{nm}__")
                if f is None and a.cls.kind == "namedtuple" and T is ast.Add and isinstance(b, tuple):
                    return tuple(self.iterate(a)) + b
                if f is not None:
                    r = self.call_function(f, [a, b], {})
                    if r is not NotImpl:
                        return r
            if isinstance(b, Rec):
                f = b.cls.lookup(f"__r{nm}__")
                if f is not None:
                    r = self.call_function(f, [b, a], {})
                    if r is not NotImpl:
                        return r
                if b.cls.kind == "namedtuple" and T is ast.Add and isinstance(a, tuple):
                    return a + tuple(self.iterate(b))
            raise PyRaise(ExcV("TypeError", (f"unsupported operand for {nm}",)))
        if T is ast.Add:
            if isinstance(a, (tuple, list)) and isinstance(b, (tuple, list)):
                if type(a) is not type(b):
                    raise PyRaise(ExcV("TypeError", ("concat",)))
                return a + b
            if isinstance(a, str) and isinstance(b, str):
                return a + b
            if isinstance(a, (str, OpaqueStr)) and isinstance(b, (str, OpaqueStr)):
                return OpaqueStr()
            if (isinstance(a, str) or (isinstance(a, Sym) and a.sort == "str")) and (isinstance(b, str) or (isinstance(b, Sym) and b.sort == "str")):
                return Sym(z3.Concat(term(a, "str"), term(b, "str")), "str")
            if isinstance(a, SeqV) and isinstance(b, (list, tuple)):
                cur = a
                for x in b:
                    cur = seq_append(self, cur, x)
                return cur
            if isinstance(a, SeqV) and isinstance(b, SeqV):
                return seq_concat(self, a, b)
            return ops.add(a, b)
        if T is ast.Sub:
            if isinstance(a, (set, frozenset)) and isinstance(b, (set, frozenset)):
                return a - b
            return ops.sub(a, b)
        if T is ast.Mult:
            if isinstance(a, (list, tuple)) and (isinstance(b, int) or (isinstance(b, Sym) and b.sort == "int")):
                if isinstance(b, int):
                    return a * b
                if len(a) != 1:
                    raise EngineError("list * symbolic with len != 1")
                x = a[0]
                return SeqV(z3.If(b.t > 0, b.t, 0), lambda j: x, "list" if isinstance(a, list) else "tuple")
            if isinstance(a, str) and isinstance(b, int):
                return a * b
            return ops.mul(a, b)
        if T is ast.Div:
            return self.divide(a, b)
        if T is ast.FloorDiv:
            self._zero_check(b)
            return ops.floordiv(a, b)
        if T is ast.Mod:
            if isinstance(a, (str, OpaqueStr)):
                if isinstance(a, str) and not _has_sym(b):
                    return a % (tuple(b) if isinstance(b, tuple) else b)
                return OpaqueStr()
            self._zero_check(b)
            return ops.mod(a, b)
        if T is ast.Pow:
            return ops.power(a, b)
        if all(isinstance(x, int) for x in (a, b)):
            if T is ast.LShift:
                return a << b
            if T is ast.RShift:
                return a >> b
            if T is ast.BitAnd:
                return a & b
            if T is ast.BitOr:
                return a | b
            if T is ast.BitXor:
                return a ^ b
        if T is ast.BitOr and isinstance(a, (set, frozenset)):
            return a | b
        if T is ast.BitAnd and isinstance(a, (set, frozenset)):
            return a & b
        raise EngineError(f"binop {T.__name__} on {a!r}, {b!r}")

    def _zero_check(self, b):
        if is_conc_num(b):
            if b == 0:
                raise PyRaise(ExcV("ZeroDivisionError", ()))
            return
        if self.pure:
            return
        if self.branch(ops.cmp_num("==", b, 0)):
            raise PyRaise(ExcV("ZeroDivisionError", ()))

    def divide(self, a, b):
        if not (is_num(a) and is_num(b)):
            raise EngineError(f"divide {a!r} / {b!r}")
        self._zero_check(b)
        return ops.truediv_total(a, b)

    def unwrap(self, v):
        """Optional -> value, raising (on a fork) the TypeError/AttributeError Python would."""
        if isinstance(v, Opt):
            if self.pure:
                return v.value
            if not self.branch(Sym(v.present, "bool")):
                raise PyRaise(ExcV("TypeError", ("NoneType",)))
            return v.value
        return v

    def e_Compare(self, e, env):
        left = self.eval(e.left, env)
        result = True
        for k, (op, rhs_e) in enumerate(zip(e.ops, e.comparators)):
            if result is False:
                return False
            if k > 0 and not isinstance(result, bool) and not self.pure and not self._total(rhs_e):
                if not self.branch(result):
                    return False
                result = True
            right = self.eval(rhs_e, env)
            r = self.compare(op, left, right)
            result = b_and(result, r)
            left = right
        return result

    def compare(self, op, a, b):
        T = type(op)
        if T is ast.Eq:
            return self.eq(a, b)
        if T is ast.NotEq:
            return b_not(self.eq(a, b))
        if T is ast.Is:
            return self.is_(a, b)
        if T is ast.IsNot:
            return b_not(self.is_(a, b))
        if T is ast.In:
            return self.contains(b, a)
        if T is ast.NotIn:
            return b_not(self.contains(b, a))
        sym = {ast.Lt: "<", ast.LtE: "<=", ast.Gt: ">", ast.GtE: ">="}[T]
        return self.order(sym, a, b)

    def order(self, sym, a, b):
        a, b = self.unwrap(a), self.unwrap(b)
        if isinstance(a, EnumMember):
            a = a.value
        if isinstance(b, EnumMember):
            b = b.value
        if is_num(a) and is_num(b) or (isinstance(a, bool) or isinstance(b, bool)):
            if isinstance(a, bool):
                a = int(a)
            if isinstance(b, bool):
                b = int(b)
            return ops.cmp_num(sym, a, b)
        if isinstance(a, str) and isinstance(b, str):
            return {"<": a < b, "<=": a <= b, ">": a > b, ">=": a >= b}[sym]
        if (isinstance(a, str) or (isinstance(a, Sym) and a.sort == "str")) and (isinstance(b, str) or (isinstance(b, Sym) and b.sort == "str")):
            ta, tb = term(a, "str"), term(b, "str")
            return mk({"<": ta < tb, "<=": ta <= tb, ">": tb < ta, ">=": tb <= ta}[sym], "bool")
        if isinstance(a, Rec) and a.cls.kind == "namedtuple":
            a = tuple(self.iterate(a))
        if isinstance(b, Rec) and b.cls.kind == "namedtuple":
            b = tuple(self.iterate(b))
        if isinstance(a, Rec) and isinstance(b, Rec) and a.cls is b.cls and a.cls.kind == "dataclass":
            a = tuple(a.f[k[0]] for k in a.cls.all_fields())
            b = tuple(b.f[k[0]] for k in b.cls.all_fields())
        if isinstance(a, (tuple, list)) and isinstance(b, (tuple, list)):
            # lexicographic
            strict = sym in ("<", ">")
            base = "<" if sym in ("<", "<=") else ">"
            n = min(len(a), len(b))
            # result for equal prefix of length n:
            if len(a) == len(b):
                tail = not strict
            elif len(a) < len(b):
                tail = base == "<"
            else:
                tail = base == ">"
            res = tail
            for k in reversed(range(n)):
                lt = self.order(base, a[k], b[k])
                eqk = self.eq(a[k], b[k])
                res = b_or(lt, b_and(eqk, res))
            return res
        raise EngineError(f"ordering of {a!r} and {b!r}")

    def is_(self, a, b):
        if a is None or b is None:
            o = b if a is None else a
            if o is None:
                return True
            if isinstance(o, Opt):
                return mk(z3.Not(o.present), "bool")
            return False
        if isinstance(a, Opt) or isinstance(b, Opt):
            raise EngineError("`is` on optional values")
        if isinstance(a, bool) and isinstance(b, bool):
            return a is b
        if isinstance(a, Sym) or isinstance(b, Sym):
            if sort_of(a) == "bool" and sort_of(b) == "bool":
                return self.eq(a, b)
            raise EngineError("`is` on symbolic scalars")
        if isinstance(a, Opaque) and isinstance(b, Opaque):
            return self.eq(a, b)
        return a is b

    def eq(self, a, b):
        if a is b and not isinstance(a, Sym):
            return True
        if isinstance(a, Opt) or isinstance(b, Opt):
            pa, va = self._opt_parts(a)
            pb, vb = self._opt_parts(b)
            both = mk(z3.And(pa, pb), "bool")
            neither = mk(z3.And(z3.Not(pa), z3.Not(pb)), "bool")
            inner = self.eq(va, vb) if (va is not None and vb is not None) else False
            return b_or(neither, b_and(both, inner))
        if a is None or b is None:
            return a is None and b is None
        if isinstance(a, EnumMember) or isinstance(b, EnumMember):
            if isinstance(a, EnumMember) and isinstance(b, EnumMember):
                if a is b:
                    return True
                is_int = lambda m: any(isinstance(x, ExternalV) and x.qual == "enum.IntEnum" for x in m.cls.bases)
                if a.cls is not b.cls and is_int(a) and is_int(b):
                    return a.value == b.value  # IntEnum members are ints
                return False
            ea, eb = (a, b) if isinstance(a, EnumMember) else (b, a)
            if any(isinstance(x, ExternalV) and x.qual == "enum.IntEnum" for x in ea.cls.bases):
                return self.eq(ea.value, eb)
            return False
        if isinstance(a, bool) and isinstance(b, bool):
            return a == b
        if isinstance(a, (str, OpaqueStr)) or isinstance(b, (str, OpaqueStr)):
            if isinstance(a, str) and isinstance(b, str):
                return a == b
            if isinstance(a, Sym) and a.sort == "str" or isinstance(b, Sym) and b.sort == "str":
                if isinstance(a, OpaqueStr) or isinstance(b, OpaqueStr):
                    raise EngineError("comparison with an opaque string")
                return mk(term(a, "str") == term(b, "str"), "bool")
            if isinstance(a, OpaqueStr) or isinstance(b, OpaqueStr):
                raise EngineError("comparison with an opaque string")
            return False
        if isinstance(a, Sym) and a.sort == "str" or isinstance(b, Sym) and b.sort == "str":
            if sort_of(a) == "str" and sort_of(b) == "str" if _scalar(a) and _scalar(b) else False:
                return mk(term(a, "str") == term(b, "str"), "bool")
            return False
        if _scalar(a) and _scalar(b):
            sa, sb = sort_of(a), sort_of(b)
            if sa == "bool" and sb == "bool":
                return mk(term(a) == term(b), "bool")
            return ops.cmp_num("==", a, b)
        if isinstance(a, Rec) and a.cls.kind == "namedtuple":
            a = tuple(self.iterate(a))
        if isinstance(b, Rec) and b.cls.kind == "namedtuple":
            b = tuple(self.iterate(b))
        if isinstance(a, Rec) and isinstance(b, Rec):
            f = a.cls.lookup("__eq__")
            if f is not None:
                return self.truth(self.call_function(f, [a, b], {}))
            if a.cls is not b.cls:
                return False
            if a.cls.kind != "dataclass":
                return a is b
            return b_and(*[self.eq(a.f[k], b.f[k]) for k in a.f])
        if isinstance(a, Rec) or isinstance(b, Rec):
            return False
        if isinstance(a, (tuple, list)) and isinstance(b, (tuple, list)):
            if type(a) is not type(b) or len(a) != len(b):
                return False
            return b_and(*[self.eq(x, y) for x, y in zip(a, b)])
        if isinstance(a, Opaque) and isinstance(b, Opaque):
            if a.tag != b.tag:
                return False
            return mk(a.t == b.t, "bool")
        if isinstance(a, (dict, set, frozenset)) and isinstance(b, (dict, set, frozenset)):
            if _has_sym(a) or _has_sym(b):
                raise EngineError("equality of containers with symbolic content")
            return a == b
        if isinstance(a, SeqV) or isinstance(b, SeqV):
            raise EngineError("equality on symbolic sequences (use seq_eq in contracts)")
        return a is b

    def contains(self, cont, x):
        if isinstance(cont, range):
            if isinstance(x, int):
                return x in cont
            if cont.step != 1:
                raise EngineError("range step")
            isint = True
            if isinstance(x, Fraction):
                return x.denominator == 1 and int(x) in cont
            if isinstance(x, Sym) and x.sort == "real":
                isint = mk(z3.IsInt(x.t), "bool")
            return b_and(isint, ops.cmp_num(">=", x, cont.start), ops.cmp_num("<", x, cont.stop))
        if isinstance(cont, (tuple, list)):
            return b_or(*[self.eq(x, e) for e in cont])
        if isinstance(cont, (set, frozenset, dict)):
            if not _has_sym(x):
                try:
                    return x in cont
                except TypeError:
                    raise PyRaise(ExcV("TypeError", ("unhashable",)))
            return b_or(*[self.eq(x, e) for e in cont])
        if isinstance(cont, str):
            if isinstance(x, str):
                return x in cont
            raise EngineError("symbolic substring test")
        if isinstance(cont, Rec):
            if cont.cls.kind == "namedtuple":
                return b_or(*[self.eq(x, e) for e in self.iterate(cont)])
            f = cont.cls.lookup("__contains__")
            if f:
                return self.truth(self.call_function(f, [cont, x], {}))
        h = getattr(cont, "contains", None)
        if h:
            return h(self, x)
        raise EngineError(f"`in` on {cont!r}")

    def e_Attribute(self, e, env):
        return self.getattr_v(self.eval(e.value, env), e.attr)

    def getattr_v(self, obj, name, submodule_of=None, default=NotImpl):
        if isinstance(obj, Opt):
            if self.pure:
                obj = obj.value
            else:
                if not self.branch(Sym(obj.present, "bool")):
                    raise PyRaise(ExcV("AttributeError", ("NoneType", name)))
                obj = obj.value
        if isinstance(obj, Rec):
            if name in obj.f:
                return obj.f[name]
            a = obj.cls.lookup(name)
            if a is None:
                if name == "__class__":
                    return obj.cls
                if name == "_replace" and obj.cls.kind == "namedtuple":
                    return PyFn("_replace", lambda ip, args, kw, o=obj: Rec(o.cls, {**o.f, **kw}))
                if name == "_fields" and obj.cls.kind == "namedtuple":
                    return tuple(f[0] for f in obj.cls.fields)
                if name == "_asdict" and obj.cls.kind == "namedtuple":
                    return PyFn("_asdict", lambda ip, args, kw, o=obj: dict(o.f))
                if default is not NotImpl:
                    return default
                raise PyRaise(ExcV("AttributeError", (obj.cls.name, name)))
            if isinstance(a, FuncV):
                if a.kind == "property":
                    return self.call_function(a, [obj], {})
                if a.kind == "classmethod":
                    return BoundMethod(a, obj.cls)
                if a.kind == "staticmethod":
                    return a
                return BoundMethod(a, obj)
            return a
        if isinstance(obj, ClassV):
            a = obj.lookup(name)
            if a is None:
                if name == "__name__":
                    return obj.name
                if name == "__members__" and obj.kind == "enum":
                    # read-only mapping name -> member, in definition order
                    return {m.name: m for c in reversed(obj.mro()) for m in c.members}
                if name == "_fields" and obj.kind == "namedtuple":
                    return tuple(f[0] for f in obj.fields)
                if name == "_make" and obj.kind == "namedtuple":
                    return PyFn("_make", lambda ip, args, kw, c=obj: ip.construct(c, list(ip.iterate(args[0])), {}))
                if default is not NotImpl:
                    return default
                raise PyRaise(ExcV("AttributeError", (obj.name, name)))
            if isinstance(a, FuncV) and a.kind == "classmethod":
                return BoundMethod(a, obj)
            return a
        if isinstance(obj, ModuleV):
            if obj.has(name):
                return obj.get(name, self)
            sub = f"{obj.name}.{name}"
            if self.world.find(sub) or not self.world.interpreted(sub):
                return self.world.import_module(sub, self)
            raise PyRaise(ExcV("AttributeError", (obj.name, name)))
        if isinstance(obj, ExternalV):
            q = f"{obj.qual}.{name}"
            c = self.B.external_const(q)
            if c is not NotImpl:
                return c
            if self.world.interpreted(q) and self.world.find(q):
                return self.world.import_module(q, self)
            return ExternalV(q)
        if isinstance(obj, EnumMember):
            if name == "name":
                return obj.name
            if name == "value":
                return obj.value
        if isinstance(obj, NS):
            if hasattr(obj, name):
                return getattr(obj, name)
            if default is not NotImpl:
                return default
            raise PyRaise(ExcV("AttributeError", ("NS", name)))
        if isinstance(obj, ExcV):
            if name == "args":
                return obj.args
        h = getattr(obj, "get_attr", None)
        if h is not None:
            return h(self, name)
        m = self.B.method(self, obj, name)
        if m is not None:
            return m
        if default is not NotImpl:
            return default
        raise EngineError(f"attribute {name!r} of {obj!r}")

    def e_Subscript(self, e, env):
        obj = self.eval(e.value, env)
        idx = self.eval(e.slice, env)
        return self.getitem(obj, idx)

    def e_Slice(self, e, env):
        return slice(
            self.eval(e.lower, env) if e.lower else None,
            self.eval(e.upper, env) if e.upper else None,
            self.eval(e.step, env) if e.step else None,
        )

    def getitem(self, obj, idx):
        obj = self.unwrap(obj)
        if isinstance(idx, Opt):
            idx = self.unwrap(idx)
        if isinstance(obj, Rec):
            if obj.cls.kind == "namedtuple":
                obj = tuple(obj.f[f[0]] for f in obj.cls.fields)
            else:
                f = obj.cls.lookup("__getitem__")
                if f is None:
                    raise PyRaise(ExcV("TypeError", ("not subscriptable",)))
                return self.call_function(f, [obj, idx], {})
        if isinstance(obj, (tuple, list, str, range)):
            if isinstance(idx, slice):
                if any(isinstance(x, Sym) for x in (idx.start, idx.stop, idx.step)):
                    if isinstance(obj, (list, tuple)):
                        return seq_slice(self, seq_of_list(self, obj), idx)
                    raise EngineError("symbolic slice of a concrete sequence")
                return obj[idx]
            if isinstance(idx, Sym):
                n = len(obj)
                ok = b_and(ops.cmp_num(">=", idx, -n), ops.cmp_num("<", idx, n))
                if self.pure:
                    pass
                elif not self.branch(ok):
                    raise PyRaise(ExcV("IndexError", ()))
                if n == 0:
                    raise EngineError("pure index into empty list")
                res = obj[n - 1]
                for k in reversed(range(n - 1)):
                    hit = b_or(ops.cmp_num("==", idx, k), ops.cmp_num("==", idx, k - n))
                    res = self.ite_val(hit, obj[k], res)
                return res
            if isinstance(idx, bool) or not isinstance(idx, int):
                raise PyRaise(ExcV("TypeError", ("index",)))
            try:
                return obj[idx]
            except IndexError:
                raise PyRaise(ExcV("IndexError", ()))
        if isinstance(obj, dict):
            k = self.hashable(idx)
            if k not in obj:
                raise PyRaise(ExcV("KeyError", (k,)))
            return obj[k]
        if isinstance(obj, SeqV):
            return seq_getitem(self, obj, idx)
        if isinstance(obj, (ExternalV, ClassV)):
            return obj  # typing subscripts: Optional[int] etc.
        h = getattr(obj, "get_item", None)
        if h is not None:
            return h(self, idx)
        raise EngineError(f"subscript of {obj!r}")

    def e_Starred(self, e, env):
        raise EngineError("starred expression outside call/tuple")

    def e_ListComp(self, e, env):
        return self._comp(e, env, "list")

    def seq_or_items(self, v):
        return v if isinstance(v, SeqV) else self.iterate(v)

    def e_GeneratorExp(self, e, env):
        r = self._comp(e, env, "list")
        return r if isinstance(r, SeqV) else GenV(r)

    def e_SetComp(self, e, env):
        items = self._comp(e, env, "list")
        out = []
        for x in items:
            if _has_sym(x):
                return setv_from_list(self, items)
            h = self.hashable(x)
            if h not in out:
                out.append(h)
        return set(out) if all(_hashable_py(x) for x in out) else setv_from_list(self, items)

    def e_DictComp(self, e, env):
        pairs = self._comp(e, env, "dict")
        if any(_has_sym(k) for k, _ in pairs):
            a = AssocV([])
            for k, v in pairs:
                a.set_item(self, k, v)
            return a
        d = {}
        for k, v in pairs:
            d[self.hashable(k)] = v
        return d

    def _comp(self, e, env, kind):
        if kind == "list" and len(e.generators) == 1 and not e.generators[0].ifs:
            g = e.generators[0]
            src = self.eval(g.iter, env)
            if isinstance(src, SeqV) and not z3.is_int_value(z3.simplify(src.length)):
                def get(j, g=g, src_get=src.get):
                    cenv = Env({}, env)
                    self.assign(g.target, src_get(j), cenv)
                    self.pure += 1
                    try:
                        return self.eval(e.elt, cenv)
                    finally:
                        self.pure -= 1
                return SeqV(src.length, get, "list")
        out = []

        def rec(gi, cenv):
            if gi == len(e.generators):
                if kind == "dict":
                    out.append((self.eval(e.key, cenv), self.eval(e.value, cenv)))
                else:
                    out.append(self.eval(e.elt, cenv))
                return
            g = e.generators[gi]
            for x in self.iterate(self.eval(g.iter, cenv)):
                self.assign(g.target, x, cenv)
                ok = True
                for c in g.ifs:
                    if not self.branch(self.cond(c, cenv)):
                        ok = False
                        break
                if ok:
                    rec(gi + 1, cenv)

        rec(0, Env({}, env))
        return out

    def e_Yield(self, e, env):
        self.yields[-1].append(self.eval(e.value, env) if e.value else None)
        return None

    def e_YieldFrom(self, e, env):
        self.yields[-1].extend(self.iterate(self.eval(e.value, env)))
        return None

    def e_NamedExpr(self, e, env):
        v = self.eval(e.value, env)
        env.vars[e.target.id] = v
        return v

    def iterate(self, v):
        v = self.unwrap(v)
        if isinstance(v, GenV):
            items = v.items[v.pos :]
            v.pos = len(v.items)
            return items
        if isinstance(v, (tuple, list)):
            return list(v)
        if isinstance(v, range):
            return list(v)
        if isinstance(v, dict):
            return list(v.keys())
        if isinstance(v, (set, frozenset)):
            try:
                return sorted(v, key=repr)
            except Exception:
                return list(v)
        if isinstance(v, str):
            return list(v)
        if isinstance(v, Rec):
            if v.cls.kind == "namedtuple":
                return [v.f[f[0]] for f in v.cls.fields]
            it = v.cls.lookup("__iter__")
            if it:
                return self.iterate(self.call_function(it, [v], {}))
            gi, ln = v.cls.lookup("__getitem__"), v.cls.lookup("__len__")
            if gi and ln:
                n = self.call_function(ln, [v], {})
                return [self.call_function(gi, [v, k], {}) for k in range(n)]
        if isinstance(v, SeqV):
            n = z3.simplify(v.length)
            if z3.is_int_value(n):
                return [v.get(z3.IntVal(k)) for k in range(n.as_long())]
            raise EngineError(f"iteration over symbolic-length sequence {v!r} without invariant")
        if isinstance(v, ClassV) and v.kind == "enum":
            return list(v.members)
        h = getattr(v, "iterate", None)
        if h:
            return h(self)
        raise EngineError(f"cannot iterate {v!r}")

    # ---- calls

    def e_Call(self, e, env):
        # short-circuiting all()/any() over a generator
        if (
            isinstance(e.func, ast.Name)
            and e.func.id in ("all", "any")
            and len(e.args) == 1
            and isinstance(e.args[0], (ast.GeneratorExp, ast.ListComp))
            and not e.keywords
            and self.B.is_builtin_binding(env, e.func.id, self)
        ):
            return self._all_any(e.func.id == "all", e.args[0], env)
        if (
            isinstance(e.func, ast.Attribute)
            and isinstance(e.func.value, ast.Name)
            and e.func.attr in ("append", "extend")
            and len(e.args) == 1
        ):
            tgt = env.lookup(e.func.value.id, self) if self._bound(env, e.func.value.id) else None
            if isinstance(tgt, SeqV):
                arg = self.eval(e.args[0], env)
                if e.func.attr == "append":
                    new = seq_append(self, tgt, arg)
                else:
                    new = tgt
                    if isinstance(arg, SeqV):
                        new = seq_concat(self, tgt, arg)
                    else:
                        for x in self.iterate(arg):
                            new = seq_append(self, new, x)
                self._rebind(env, e.func.value.id, new)
                return None
        fn = self.eval(e.func, env)
        args = []
        for a in e.args:
            if isinstance(a, ast.Starred):
                sv = self.eval(a.value, env)
                if isinstance(sv, SeqV) and not z3.is_int_value(z3.simplify(sv.length)):
                    args.append(StarSeq(sv))  # only zip() understands it
                else:
                    args.extend(self.iterate(sv))
            else:
                args.append(self.eval(a, env))
        kwargs = {}
        for k in e.keywords:
            if k.arg is None:
                kwargs.update(self.eval(k.value, env))
            else:
                kwargs[k.arg] = self.eval(k.value, env)
        return self.call_v(fn, args, kwargs, node=e)

    def _bound(self, env, name):
        e = env
        while e is not None:
            if name in e.vars:
                return True
            e = e.parent
        return False

    def _rebind(self, env, name, val):
        e = env
        while e is not None:
            if name in e.vars:
                e.vars[name] = val
                return
            e = e.parent
        env.vars[name] = val

    def _all_any(self, is_all, gen, env):
        quant = self.B.quantified_range(self, gen, env)
        if quant is not None:
            return self.B.quantify(self, is_all, gen, env, quant)
        acc = []
        done = [None]

        def rec(gi, cenv):
            if done[0] is not None:
                return
            if gi == len(gen.generators):
                v = self.truth(self.eval(gen.elt, cenv))
                if self.pure:
                    acc.append(v)
                else:
                    if isinstance(v, bool):
                        if v != is_all:
                            done[0] = v
                    elif self.branch(v) != is_all:
                        done[0] = not is_all
                return
            g = gen.generators[gi]
            for x in self.iterate(self.eval(g.iter, cenv)):
                if done[0] is not None:
                    return
                self.assign(g.target, x, cenv)
                ok = True
                guard = []
                for c in g.ifs:
                    cv = self.cond(c, cenv)
                    if self.pure and not isinstance(cv, bool):
                        guard.append(cv)
                    elif not self.branch(cv):
                        ok = False
                        break
                if ok:
                    if guard:
                        n0 = len(acc)
                        rec(gi + 1, cenv)
                        g_all = b_and(*guard)
                        for i in range(n0, len(acc)):
                            acc[i] = b_implies(g_all, acc[i]) if is_all else b_and(g_all, acc[i])
                    else:
                        rec(gi + 1, cenv)

        rec(0, Env({}, env))
        if self.pure:
            return b_and(*acc) if is_all else b_or(*acc)
        return is_all if done[0] is None else done[0]

    def call_v(self, fn, args, kwargs, node=None):
        if isinstance(fn, FuncV):
            return self.call_function(fn, args, kwargs)
        if isinstance(fn, BoundMethod):
            return self.call_function(fn.func, [fn.self_v] + list(args), kwargs)
        if isinstance(fn, ClassV):
            return self.construct(fn, args, kwargs)
        if isinstance(fn, PyFn):
            return fn.fn(self, args, kwargs)
        if isinstance(fn, ExcClass):
            return ExcV(fn.name, tuple(args))
        if isinstance(fn, ExternalV):
            c = self.world.contracts.get(fn.qual)
            if c is not None:
                names = list(c.args)
                vars_ = dict(zip(names, args))
                vars_.update(kwargs)
                missing = [n for n in names if n not in vars_]
                if missing:
                    raise EngineError(f"call of {fn.qual}: contract needs arguments {missing}")
                return c.apply_modular(self, None, NS(vars=vars_))
            return self.B.call_external(self, fn.qual, args, kwargs)
        h = getattr(fn, "call", None)
        if h:
            return h(self, args, kwargs)
        raise EngineError(f"call of {fn!r}")

    def bind(self, func, args, kwargs):
        a = func.node.args
        env = Env({}, func.env, func.module)
        params = [p.arg for p in a.posonlyargs + a.args]
        defaults = [None] * (len(params) - len(a.defaults)) + list(a.defaults)
        args = list(args)
        kwargs = dict(kwargs)
        for i, p in enumerate(params):
            if i < len(args):
                if p in kwargs:
                    raise PyRaise(ExcV("TypeError", (f"multiple values for {p}",)))
                env.vars[p] = args[i]
            elif p in kwargs:
                env.vars[p] = kwargs.pop(p)
            elif defaults[i] is not None:
                env.vars[p] = self.eval(defaults[i], Env({}, func.env, func.module) if func.owner is None else Env({}, func.owner.cenv, func.module))
            else:
                raise PyRaise(ExcV("TypeError", (f"missing argument {p} for {func.qualname}",)))
        extra = args[len(params) :]
        if a.vararg:
            env.vars[a.vararg.arg] = tuple(extra)
        elif extra:
            raise PyRaise(ExcV("TypeError", (f"too many positional arguments for {func.qualname}",)))
        for p, d in zip(a.kwonlyargs, a.kw_defaults):
            if p.arg in kwargs:
                env.vars[p.arg] = kwargs.pop(p.arg)
            elif d is not None:
                env.vars[p.arg] = self.eval(d, Env({}, func.env, func.module))
            else:
                raise PyRaise(ExcV("TypeError", (f"missing kw-only {p.arg}",)))
        if a.kwarg:
            env.vars[a.kwarg.arg] = kwargs
        elif kwargs:
            raise PyRaise(ExcV("TypeError", (f"unexpected keyword {list(kwargs)} for {func.qualname}",)))
        env.vars["__qualname__"] = func.qualname
        return env

    def call_function(self, func, args, kwargs):
        if self.depth > 0 or self.top_func is not func:
            c = self.world.contracts.get(func.qualname)
            if c is not None and c.modular and func.qualname not in self.world.inline:
                env = self.bind(func, args, kwargs)
                return c.apply_modular(self, func, env)
        if self.depth > MAX_DEPTH:
            raise EngineError("recursion depth")
        env = self.bind(func, args, kwargs)
        if self.depth > 0 and func.module is not None:
            self.used_inlined.add(func.qualname)
        self.depth += 1
        try:
            if isinstance(func.node, ast.Lambda):
                return self.eval(func.node.body, env)
            if func.is_gen:
                self.yields.append([])
                try:
                    try:
                        self.exec_block(func.node.body, env)
                    except ReturnSig:
                        pass
                    return GenV(self.yields[-1])
                finally:
                    self.yields.pop()
            try:
                self.exec_block(func.node.body, env)
            except ReturnSig as r:
                return r.value
            return None
        finally:
            self.depth -= 1

    def construct(self, cls, args, kwargs):
        if cls.kind in ("namedtuple", "dataclass"):
            fields = cls.all_fields()
            vals = {}
            args = list(args)
            if len(args) > len(fields):
                raise PyRaise(ExcV("TypeError", (f"too many arguments for {cls.name}",)))
            kwargs = dict(kwargs)
            for i, (fname, ann, dflt) in enumerate(fields):
                if i < len(args):
                    vals[fname] = args[i]
                elif fname in kwargs:
                    vals[fname] = kwargs.pop(fname)
                elif dflt is not None:
                    vals[fname] = self.eval(dflt, cls.cenv)
                else:
                    raise PyRaise(ExcV("TypeError", (f"missing field {fname} for {cls.name}",)))
            if kwargs:
                raise PyRaise(ExcV("TypeError", (f"unexpected field {list(kwargs)} for {cls.name}",)))
            r = Rec(cls, vals)
            pi = cls.lookup("__post_init__")
            if pi is not None:
                r.mutable = "post_init"
                self.call_function(pi, [r], {})
                r.mutable = False
            return r
        if cls.kind == "enum":
            for m in cls.members:
                if self.eq(m.value, args[0]) is True:
                    return m
            raise PyRaise(ExcV("ValueError", ("enum",)))
        # plain class
        r = Rec(cls, {}, mutable=True)
        init = cls.lookup("__init__")
        if init is not None:
            self.call_function(init, [r] + list(args), kwargs)
        elif args or kwargs:
            raise PyRaise(ExcV("TypeError", ("object() takes no arguments",)))
        return r


def _scalar(v):
    return isinstance(v, (bool, int, Fraction, Sym))


def _as_load(t):
    import copy

    t2 = copy.copy(t)
    t2.ctx = ast.Load()
    return t2


def _has_sym(v):
    if isinstance(v, (Sym, Opaque, Opt, SeqV, SetV)):
        return True
    if isinstance(v, (tuple, list, set, frozenset)):
        return any(_has_sym(x) for x in v)
    if isinstance(v, dict):
        return any(_has_sym(x) for x in v.values())
    if isinstance(v, Rec):
        return any(_has_sym(x) for x in v.f.values())
    return False


def _hashable_py(x):
    try:
        hash(x)
        return True
    except TypeError:
        return False


from .seqs import *  # noqa: E402  (sequence helpers use Interp lazily)
