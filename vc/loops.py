"""Loop invariants (filled in below) -- install() hooks the interpreter's loop handling."""
from .values import *


def install(ip, contract, func, allv):
    return None
