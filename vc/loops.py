"""Loops over data of unknown length are cut by invariants (DESIGN.md App. D.3).

Contract attributes used here:

  invariants = {k: lambda <locals...>, _k, old: bool}    k = ordinal of the loop in the
                                                         function's source order (for/while,
                                                         nested ones included, depth-first)
  loop_vars  = {k: {"name": shape}}                      shapes for variables modified in the
                                                         loop whose shape cannot be read off
                                                         their entry value (e.g. a list that
                                                         is empty at entry)
  decreases  = {k: lambda <locals...>: int}              while loops: variant

Obligations:  inv<k>.init, inv<k>.preserve, dec<k>.  After the loop the modified variables
are havocked and the invariant (with `_k = len`) and the negated guard are assumed.
"""
import ast
import z3

from .values import *
from . import values as V
from . import interp as I
from . import ops
from . import shapes as S
from .seqs import *

_MUTATORS = {"append", "extend", "pop", "popleft", "add", "insert", "update", "remove", "clear", "sort", "appendleft", "discard", "setdefault"}


def loop_nodes(func_node):
    out = []

    def walk(body):
        for st in body:
            if isinstance(st, (ast.For, ast.While)):
                out.append(st)
                walk(st.body)
                walk(st.orelse)
            elif isinstance(st, (ast.If,)):
                walk(st.body)
                walk(st.orelse)
            elif isinstance(st, ast.Try):
                walk(st.body)
                for h in st.handlers:
                    walk(h.body)
                walk(st.orelse)
                walk(st.finalbody)
            elif isinstance(st, ast.With):
                walk(st.body)

    walk(func_node.body)
    return out


def modified_names(loop):
    names = set()
    for n in ast.walk(loop):
        if isinstance(n, (ast.Assign, ast.AugAssign, ast.AnnAssign)):
            targets = n.targets if isinstance(n, ast.Assign) else [n.target]
            for t in targets:
                for x in ast.walk(t):
                    if isinstance(x, ast.Name) and isinstance(x.ctx, ast.Store):
                        names.add(x.id)
                base = t
                while isinstance(base, (ast.Subscript, ast.Attribute)):
                    base = base.value
                if isinstance(base, ast.Name):
                    names.add(base.id)
        elif isinstance(n, ast.Call) and isinstance(n.func, ast.Attribute) and n.func.attr in _MUTATORS:
            base = n.func.value
            while isinstance(base, (ast.Subscript, ast.Attribute)):
                base = base.value
            if isinstance(base, ast.Name):
                names.add(base.id)
        elif isinstance(n, (ast.For, ast.comprehension)):
            for x in ast.walk(n.target):
                if isinstance(x, ast.Name):
                    names.add(x.id)
        elif isinstance(n, ast.NamedExpr):
            names.add(n.target.id)
    return names


class WindowV:
    """a deque built from a symbolic sequence: base[lo:hi]"""

    def __init__(self, base, lo=None, hi=None):
        self.base = base
        self.lo = z3.IntVal(0) if lo is None else lo
        self.hi = base.length if hi is None else hi

    def length(self, ip):
        return mk(self.hi - self.lo, "int")

    def get_item(self, ip, idx):
        if idx == 0 or idx == -1:
            nonempty = mk(self.hi > self.lo, "bool")
            if not ip.pure and not ip.branch(nonempty):
                raise PyRaise(ExcV("IndexError", ()))
            return self.base.get(z3.simplify(self.lo if idx == 0 else self.hi - 1))
        raise EngineError("deque index other than 0 / -1")

    def truthy(self):
        return mk(self.hi > self.lo, "bool")

    def get_attr(self, ip, name):
        def nonempty():
            ne = mk(self.hi > self.lo, "bool")
            if not ip.pure and not ip.branch(ne):
                raise PyRaise(ExcV("IndexError", ("pop from an empty deque",)))

        if name == "popleft":
            def f(ip_, a, k):
                nonempty()
                v = self.base.get(z3.simplify(self.lo))
                self.lo = z3.simplify(self.lo + 1)
                return v
            return I.PyFn("popleft", f)
        if name == "pop":
            def f(ip_, a, k):
                nonempty()
                v = self.base.get(z3.simplify(self.hi - 1))
                self.hi = z3.simplify(self.hi - 1)
                return v
            return I.PyFn("pop", f)
        raise EngineError(f"deque.{name} on a symbolic window")


def havoc_like(ip, mk_, name, val, tag):
    """fresh value with the shape of `val`"""
    nm = f"{name}~{tag}"
    if isinstance(val, Sym):
        return V.Sym(z3.Const(nm, S._z3sort(val.sort)), val.sort)
    if isinstance(val, bool):
        return V.Sym(z3.Bool(nm), "bool")
    if isinstance(val, int):
        return V.Sym(z3.Int(nm), "int")
    from fractions import Fraction

    if isinstance(val, Fraction):
        return V.Sym(z3.Real(nm), "real")
    if isinstance(val, Rec):
        return Rec(val.cls, {k: havoc_like(ip, mk_, f"{nm}.{k}", v, "") for k, v in val.f.items()}, val.mutable)
    if isinstance(val, tuple):
        return tuple(havoc_like(ip, mk_, f"{nm}.{i}", v, "") for i, v in enumerate(val))
    if isinstance(val, Opaque):
        return Opaque(z3.Const(nm, S.usort(val.tag)), val.tag)
    if isinstance(val, Opt):
        return Opt(z3.Bool(nm + "?"), havoc_like(ip, mk_, nm, val.value, ""))
    if isinstance(val, SeqV):
        ln = z3.Int(nm + ".len")
        ip.assume(ln >= 0)
        probe = val.get(z3.Int("probe!"))
        return SeqV(ln, lambda j, probe=probe, nm=nm: _elem_like(ip, nm + "[]", probe, j), val.kind, val.name)
    if isinstance(val, WindowV):
        lo, hi = z3.Int(nm + ".lo"), z3.Int(nm + ".hi")
        ip.assume(z3.And(0 <= lo, lo <= hi, hi <= val.base.length))
        return WindowV(val.base, lo, hi)
    if val is None:
        return None
    if isinstance(val, (I.NS, I.FuncV, I.ClassV, ExternalV)):
        return val
    raise EngineError(f"cannot havoc {name} = {val!r}: give its shape in loop_vars")


def _elem_like(ip, nm, probe, j):
    if isinstance(probe, Sym):
        f = z3.Function(nm, z3.IntSort(), S._z3sort(probe.sort))
        return V.Sym(f(j), probe.sort)
    if isinstance(probe, Rec):
        return Rec(probe.cls, {k: _elem_like(ip, f"{nm}.{k}", v, j) for k, v in probe.f.items()})
    if isinstance(probe, tuple):
        return tuple(_elem_like(ip, f"{nm}.{i}", v, j) for i, v in enumerate(probe))
    if isinstance(probe, I.NS):
        return I.NS(**{k: _elem_like(ip, f"{nm}.{k}", v, j) for k, v in probe.__dict__.items()})
    if isinstance(probe, Opaque):
        f = z3.Function(nm, z3.IntSort(), S.usort(probe.tag))
        return Opaque(f(j), probe.tag)
    if isinstance(probe, Opt):
        f = z3.Function(nm + "?", z3.IntSort(), z3.BoolSort())
        return Opt(f(j), _elem_like(ip, nm, probe.value, j))
    if isinstance(probe, SizedV):
        f = z3.Function(nm + ".nbytes", z3.IntSort(), z3.IntSort())
        return SizedV(f(j))
    if isinstance(probe, (int, str)) or probe is None:
        return probe
    raise EngineError(f"element shape {probe!r}")


def install(ip, contract, func, allv):
    loops = loop_nodes(func.node)
    index = {id(n): k for k, n in enumerate(loops)}
    state = {"count": {}}

    def call_inv(fn, env, extra):
        a = fn.node.args
        names = [p.arg for p in a.posonlyargs + a.args]
        kw = {}
        for n in names:
            if n in extra:
                kw[n] = extra[n]
            else:
                try:
                    kw[n] = env.lookup(n, ip)
                except PyRaise:
                    raise EngineError(f"invariant refers to unknown name {n!r}")
        ip.pure += 1
        try:
            return to_bool_term(ip.truth(ip.call_function(fn, [], kw)))
        finally:
            ip.pure -= 1

    def hook(ip_, st, env, it):
        k = index.get(id(st))
        if k is None:
            return NotImpl
        inv = contract.invariants.get(k)
        if isinstance(st, ast.While):
            if inv is None:
                return NotImpl  # concrete while loops run as they are
        if inv is None:
            if it is not None and hasattr(it, "lo") and hasattr(it, "hi"):
                return NotImpl  # bounded unrolling of a symbolic range (finite scope)
            raise EngineError(f"loop #{k} (line {st.lineno}) of {func.qualname} iterates over data of unknown length and has no invariant")
        occ = state["count"].get(k, 0)
        state["count"][k] = occ + 1
        tag = f"L{k}" + (f"_{occ}" if occ else "")
        old = I.NS(**{n: v for n, v in env.vars.items() if n != "__qualname__"})
        mods = modified_names(st)
        decl = contract.loop_vars.get(k, {}) if hasattr(contract, "loop_vars") else {}
        is_for = isinstance(st, ast.For)
        if is_for:
            if isinstance(it, SeqV):
                n_items = it.length
                item = it.get
            elif hasattr(it, "lo"):
                lo, hi = term(it.lo, "int"), term(it.hi, "int")
                n_items = z3.If(hi > lo, hi - lo, 0)
                item = lambda j: mk(lo + j, "int")
            elif isinstance(it, SetV):
                n_items = it.enum.length
                item = it.enum.get
            else:
                raise EngineError("loop hook on unsupported iterable")
        # concrete lists that the loop grows become symbolic sequences of the declared shape
        for n, sh in decl.items():
            cur = env.vars.get(n)
            if isinstance(cur, (list, tuple)) and isinstance(sh, S.Shape) and sh.kind == "seq":
                items = list(cur)
                mk0 = S.Maker(ip_)

                def get(j, items=items, sh=sh, n=n, mk0=mk0):
                    res = mk0.make(sh.a[0], f"{n}~{tag}unset[]", (j,))
                    for kk_ in reversed(range(len(items))):
                        res = ip_.ite_val(mk(j == kk_, "bool"), items[kk_], res)
                    return res

                env.vars[n] = SeqV(z3.IntVal(len(items)), get, "list" if isinstance(cur, list) else "tuple", n)
        # ---- init
        g0 = call_inv(inv, env, {"_k": 0, "old": old})
        ip_.obligations.append((f"inv{k}.init", list(ip_.pc), g0))

        def havoc(phase):
            mk_ = S.Maker(ip_)
            for n in sorted(mods):
                if is_for and any(isinstance(x, ast.Name) and x.id == n for x in ast.walk(st.target)):
                    continue
                if n in decl:
                    env.vars[n] = mk_.make(decl[n], f"{n}~{tag}{phase}")
                elif n in env.vars:
                    env.vars[n] = havoc_like(ip_, mk_, n, env.vars[n], tag + phase)
                # names first assigned inside the loop need no havoc
            for t in mk_.side:
                ip_.assume(t)

        choice = V.Sym(z3.Bool(f"in_loop~{tag}"), "bool")
        if ip_.branch(choice):
            # ---- an arbitrary iteration
            havoc("i")
            kk = z3.Int(f"_k~{tag}")
            if is_for:
                ip_.assume(z3.And(kk >= 0, kk < n_items))
            else:
                ip_.assume(kk >= 0)
            ip_.assume(call_inv(inv, env, {"_k": V.Sym(kk, "int"), "old": old}))
            dec = contract.decreases.get(k) if contract.decreases else None
            if is_for:
                ip_.assign(st.target, item(kk), env)
            else:
                c = ip_.cond(st.test, env)
                if not ip_.branch(c):
                    raise I.PathPruned()
            d0 = None
            if dec is not None:
                d0 = call_dec(dec, env)
            try:
                ip_.exec_block(st.body, env)
            except I.ContinueSig:
                pass
            except I.BreakSig:
                return  # leaves the loop with the state at the break
            g1 = call_inv(inv, env, {"_k": V.Sym(z3.simplify(kk + 1), "int"), "old": old})
            ip_.obligations.append((f"inv{k}.preserve", list(ip_.pc), g1))
            if dec is not None:
                d1 = call_dec(dec, env)
                ip_.obligations.append((f"dec{k}", list(ip_.pc), z3.And(term(d0, "int") >= 0, term(d1, "int") < term(d0, "int"))))
            raise I.PathPruned()
        # ---- after the loop
        havoc("x")
        if is_for:
            ip_.assume(call_inv(inv, env, {"_k": mk(n_items, "int"), "old": old}))
        else:
            kx = z3.Int(f"_k~{tag}x")
            ip_.assume(kx >= 0)
            ip_.assume(call_inv(inv, env, {"_k": V.Sym(kx, "int"), "old": old}))
            c = ip_.cond(st.test, env)
            if ip_.branch(c):
                raise I.PathPruned()
        ip_.exec_block(st.orelse, env)
        return None

    def call_dec(fn, env):
        a = fn.node.args
        kw = {p.arg: env.lookup(p.arg, ip) for p in a.posonlyargs + a.args}
        ip.pure += 1
        try:
            return ip.call_function(fn, [], kw)
        finally:
            ip.pure -= 1

    ip.loop_hook = hook
