"""Built-in functions, methods of built-in types, models of external library calls and the
symbolic half of vlib (the contract helper library)."""
import ast
import collections
from fractions import Fraction
import sys
import z3

from .values import *
from . import ops
from . import interp as I
from .seqs import *


class TypeV:
    def __init__(self, name):
        self.name = name

    def __repr__(self):
        return f"<type {self.name}>"


_TYPES = {n: TypeV(n) for n in ("int", "float", "str", "bool", "tuple", "list", "dict", "set", "frozenset", "slice", "object", "type", "bytes", "range")}
_EXCS = {n: I.ExcClass(n) for n in I.EXC_PARENTS}

_B = {}


def builtin(name):
    def deco(f):
        _B[name] = I.PyFn(name, f)
        return f

    return deco


def lookup(name):
    if name in _B:
        return _B[name]
    if name in _TYPES:
        return _TYPES[name]
    if name in _EXCS:
        return _EXCS[name]
    if name == "NotImplemented":
        return NotImpl
    if name in ("True", "False", "None"):
        return {"True": True, "False": False, "None": None}[name]
    if name == "__name__":
        return "__interpreted__"
    return None


def is_builtin_binding(env, name, ip):
    e = env
    while e is not None:
        if name in e.vars:
            return False
        e = e.parent
    return not (env.module is not None and env.module.has(name))


# ------------------------------------------------------------------ type conversions


def _call_type(ip, t, args, kw):
    n = t.name
    if n == "int":
        if not args:
            return 0
        v = args[0]
        if isinstance(v, str):
            base = args[1] if len(args) > 1 else kw.get("base", 10)
            try:
                return int(v, base)
            except ValueError:
                raise PyRaise(ExcV("ValueError", ("int()",)))
        if isinstance(v, I.EnumMember):
            return v.value
        return ops.trunc(ip.unwrap(v))
    if n == "float":
        v = args[0] if args else 0
        if isinstance(v, str):
            try:
                return Fraction(v)
            except ValueError:
                raise PyRaise(ExcV("ValueError", ("float()",)))
        if isinstance(v, bool):
            return Fraction(int(v))
        if isinstance(v, int):
            return Fraction(v)
        if isinstance(v, Sym) and v.sort == "int":
            return mk(z3.ToReal(v.t), "real")
        return v
    if n == "bool":
        return ip.truth(args[0]) if args else False
    if n == "str":
        if not args:
            return ""
        v = args[0]
        if isinstance(v, (str, int, bool)) or v is None:
            return str(v)
        return OpaqueStr()
    if n == "tuple":
        return tuple(ip.iterate(args[0])) if args else ()
    if n == "list":
        if args and isinstance(args[0], SeqV):
            return SeqV(args[0].length, args[0].get, "list", args[0].name)
        return list(ip.iterate(args[0])) if args else []
    if n == "dict":
        d = {}
        if args:
            a = args[0]
            if isinstance(a, dict):
                d.update(a)
            else:
                for k, v in [ip.iterate(p) for p in ip.iterate(a)]:
                    d[ip.hashable(k)] = v
        d.update(kw)
        return d
    if n in ("set", "frozenset"):
        if not args:
            return set()
        a = args[0]
        if isinstance(a, (SeqV, SetV)):
            return to_setv(ip, a)
        items = ip.iterate(a)
        if any(I._has_sym(x) for x in items):
            return finite_symset(ip, items)
        out = []
        for x in items:
            h = ip.hashable(x)
            if not any(_py_equal(h, y) for y in out):
                out.append(h)
        return _OrderedSet(out)
    if n == "object":
        return I.NS()
    if n == "slice":
        return slice(*args)
    if n == "range":
        return _range(ip, args, kw)
    if n == "type":
        v = args[0]
        if isinstance(v, Rec):
            return v.cls
        if isinstance(v, list) or (isinstance(v, SeqV) and v.kind == "list"):
            return _TYPES["list"]
        if isinstance(v, tuple) or (isinstance(v, SeqV) and v.kind == "tuple"):
            return _TYPES["tuple"]
        if isinstance(v, I.NS):
            return _TYPES["object"]  # a ghost object: some class that is none of the builtin containers
        raise EngineError("type() of non-record")
    raise EngineError(f"call of type {n}")


TypeV.call = lambda self, ip, args, kw: _call_type(ip, self, args, kw)


def _py_equal(a, b):
    try:
        return a == b
    except Exception:
        return a is b


class _OrderedSet(set):
    """concrete set with deterministic (insertion) order for iteration"""

    def __init__(self, items=()):
        super().__init__()
        self._order = []
        for x in items:
            self.add(x)

    def add(self, x):
        if x not in self:
            super().add(x)
            self._order.append(x)

    def iterate(self, ip):
        return [x for x in self._order if x in self]


def finite_symset(ip, items):
    """set built from a concrete-length list of possibly symbolic elements: the list with
    duplicates removed (first occurrence wins) -- as a concrete-length structure this
    needs a fork per duplicate test"""
    out = []
    for x in items:
        dup = False
        for y in out:
            if ip.branch(ip.eq(x, y)):
                dup = True
                break
        if not dup:
            out.append(x)
    return FiniteSet(out)


class FiniteSet:
    """set of known size with symbolic, pairwise distinct (on this path) elements; its
    iteration order is the order of `items` -- callers that must be order-independent are
    verified against every insertion order by the finite-scope driver."""

    def __init__(self, items):
        self.items = list(items)

    def iterate(self, ip):
        return list(self.items)

    def contains(self, ip, x):
        return b_or(*[ip.eq(x, y) for y in self.items])

    def __len__(self):
        return len(self.items)


def to_setv(ip, a):
    raise EngineError("set() of a symbolic-length sequence needs the set axioms (not in scope)")


def _range(ip, args, kw):
    if all(isinstance(a, int) for a in args):
        return range(*args)
    return SymRange(*args)


class SymRange:
    def __init__(self, *args):
        if len(args) == 1:
            self.lo, self.hi = 0, args[0]
        elif len(args) == 2:
            self.lo, self.hi = args
        else:
            raise EngineError("symbolic range with step")

    def iterate(self, ip):
        raise EngineError("iteration over a symbolic range (needs an invariant or finite scope)")

    def contains(self, ip, x):
        return b_and(ops.cmp_num("<=", self.lo, x), ops.cmp_num("<", x, self.hi))


_B["range"] = I.PyFn("range", lambda ip, a, k: _range(ip, a, k))

# ------------------------------------------------------------------ plain builtins


@builtin("len")
def _len(ip, args, kw):
    v = ip.unwrap(args[0])
    if isinstance(v, (tuple, list, dict, set, frozenset, str, range, collections.deque, FiniteSet)):
        return len(v)
    if isinstance(v, SeqV):
        return mk(v.length, "int")
    if isinstance(v, Rec):
        f = v.cls.lookup("__len__")
        if f:
            return ip.call_function(f, [v], {})
        if v.cls.kind == "namedtuple":
            return len(v.cls.fields)
    if isinstance(v, SizedV):
        ip.assume(v.n >= 0) if not ip.pure else None
        return mk(v.n, "int")
    h = getattr(v, "length", None)
    if h is not None:
        return h(ip)
    raise EngineError(f"len of {v!r}")


@builtin("abs")
def _abs(ip, args, kw):
    return ops.absv(ip.unwrap(args[0]))


def _minmax(ip, args, kw, f):
    if len(args) == 1:
        items = ip.iterate(args[0])
    else:
        items = list(args)
    key = kw.get("key")
    if not items:
        if "default" in kw:
            return kw["default"]
        raise PyRaise(ExcV("ValueError", ("min/max of empty sequence",)))
    if key is not None:
        keys = [ip.call_v(key, [x], {}) for x in items]
        best, bk = items[0], keys[0]
        for x, k in zip(items[1:], keys[1:]):
            better = ip.order("<" if f is ops.minv else ">", k, bk)
            best = ip.ite_val(better, x, best)
            bk = ip.ite_val(better, k, bk)
        return best
    cur = ip.unwrap(items[0])
    for x in items[1:]:
        x = ip.unwrap(x)
        if is_num(cur) and is_num(x):
            cur = f(cur, x)
        else:
            better = ip.order("<" if f is ops.minv else ">", x, cur)
            cur = ip.ite_val(better, x, cur)
    return cur


_B["min"] = I.PyFn("min", lambda ip, a, k: _minmax(ip, a, k, ops.minv))
_B["max"] = I.PyFn("max", lambda ip, a, k: _minmax(ip, a, k, ops.maxv))


@builtin("sum")
def _sum(ip, args, kw):
    acc = args[1] if len(args) > 1 else 0
    for x in ip.iterate(args[0]):
        acc = ip.binop(ast.Add(), acc, x)
    return acc


@builtin("round")
def _round(ip, args, kw):
    v = ip.unwrap(args[0])
    nd = args[1] if len(args) > 1 else kw.get("ndigits")
    if isinstance(v, Rec):
        f = v.cls.lookup("__round__")
        if f:
            return ip.call_function(f, [v] + ([nd] if nd is not None else []), {})
    if nd is None:
        return ops.round_half_even(v)
    if getattr(ip, "abstract_round", False) and isinstance(v, Sym) and v.sort == "real" and isinstance(nd, int) and nd > 0:
        # sound over-approximation: some real within half a unit in the last place
        r = z3.Real(fresh_name("rnd"))
        half = term(Fraction(1, 2 * 10 ** nd), "real")
        ip.assume(z3.And(r - v.t <= half, v.t - r <= half))
        ip.assume(z3.Implies(v.t == 0, r == 0))
        ip.assume(z3.Implies(v.t == 1, r == 1))
        return Sym(r, "real")
    return ops.round_nd(v, nd)


@builtin("all")
def _all(ip, args, kw):
    return b_and(*[ip.truth(x) for x in ip.iterate(args[0])])


@builtin("any")
def _any(ip, args, kw):
    return b_or(*[ip.truth(x) for x in ip.iterate(args[0])])


@builtin("isinstance")
def _isinstance(ip, args, kw):
    v, c = args
    if isinstance(v, Opt):
        if ip.pure:
            raise EngineError("isinstance on optional in pure context")
        if not ip.branch(Sym(v.present, "bool")):
            v = None
        else:
            v = v.value
    cs = c if isinstance(c, tuple) else (c,)
    return any(_isinst1(ip, v, x) for x in cs)


def _isinst1(ip, v, c):
    if isinstance(c, I.ClassV):
        if isinstance(v, Rec):
            return v.cls.issubclass_of(c)
        if isinstance(v, Opaque):
            return v.tag == c.name or v.tag.startswith(c.name + ":")
        if isinstance(v, I.EnumMember):
            return v.cls.issubclass_of(c)
        return False
    if isinstance(c, TypeV):
        n = c.name
        if n == "int":
            return isinstance(v, int) or (isinstance(v, Sym) and v.sort in ("int", "bool")) or (
                isinstance(v, I.EnumMember) and isinstance(v.value, int) and any(isinstance(b, ExternalV) and b.qual == "enum.IntEnum" for b in v.cls.bases)
            )
        if n == "bool":
            return isinstance(v, bool) or (isinstance(v, Sym) and v.sort == "bool")
        if n == "float":
            return isinstance(v, Fraction) or (isinstance(v, Sym) and v.sort == "real")
        if n == "str":
            return isinstance(v, (str, OpaqueStr)) or (isinstance(v, Sym) and v.sort == "str")
        if n == "tuple":
            return isinstance(v, tuple) or (isinstance(v, Rec) and v.cls.kind == "namedtuple") or (isinstance(v, SeqV) and v.kind == "tuple")
        if n == "list":
            return isinstance(v, list) or (isinstance(v, SeqV) and v.kind == "list")
        if n == "dict":
            return isinstance(v, dict)
        if n in ("set", "frozenset"):
            return isinstance(v, (set, frozenset, FiniteSet))
        if n == "slice":
            return isinstance(v, slice)
        if n == "object":
            return True
    if isinstance(c, ExternalV):
        if isinstance(v, (Rec, int, Fraction, str, Sym, tuple, list, dict)) or v is None:
            return False
        if isinstance(v, Opaque):
            return v.tag == c.qual.split(".")[-1]
    raise EngineError(f"isinstance({v!r}, {c!r})")


@builtin("issubclass")
def _issubclass(ip, args, kw):
    a, b = args
    if isinstance(a, I.ClassV) and isinstance(b, I.ClassV):
        return a.issubclass_of(b)
    raise EngineError("issubclass")


@builtin("getattr")
def _getattr(ip, args, kw):
    if not isinstance(args[1], str):
        raise EngineError("getattr with non-concrete name")
    if len(args) > 2:
        return ip.getattr_v(args[0], args[1], default=args[2])
    return ip.getattr_v(args[0], args[1])


@builtin("hasattr")
def _hasattr(ip, args, kw):
    s = object()
    return ip.getattr_v(args[0], args[1], default=s) is not s


@builtin("setattr")
def _setattr(ip, args, kw):
    ip.setattr_v(args[0], args[1], args[2])


@builtin("next")
def _next(ip, args, kw):
    g = args[0]
    if isinstance(g, I.GenV):
        if g.pos < len(g.items):
            g.pos += 1
            return g.items[g.pos - 1]
        if len(args) > 1:
            return args[1]
        raise PyRaise(ExcV("StopIteration", ()))
    raise EngineError("next() on non generator")


@builtin("iter")
def _iter(ip, args, kw):
    return I.GenV(ip.iterate(args[0]))


@builtin("enumerate")
def _enumerate(ip, args, kw):
    start = args[1] if len(args) > 1 else kw.get("start", 0)
    return [(start + i, x) for i, x in enumerate(ip.iterate(args[0]))]


@builtin("zip")
def _zip(ip, args, kw):
    if any(isinstance(a, SeqV) and not z3.is_int_value(z3.simplify(a.length)) for a in args):
        seqs = [a if isinstance(a, SeqV) else seq_of_list(ip, ip.iterate(a)) for a in args]
        ln = seqs[0].length
        for s_ in seqs[1:]:
            ln = z3.If(s_.length < ln, s_.length, ln)
        gets = [s_.get for s_ in seqs]  # captured now: a later `x[:] = ...` on an argument must not show through
        return SeqV(z3.simplify(ln), lambda j: tuple(g(j) for g in gets), "list")
    if len(args) == 1 and isinstance(args[0], I.StarSeq):
        return _transpose(ip, args[0].seq)
    lists = [ip.iterate(a) for a in args]
    return [tuple(t) for t in zip(*lists)]


@builtin("reversed")
def _reversed(ip, args, kw):
    return list(reversed(ip.iterate(args[0])))


@builtin("map")
def _map(ip, args, kw):
    return I.GenV([ip.call_v(args[0], [x], {}) for x in ip.iterate(args[1])])


@builtin("filter")
def _filter(ip, args, kw):
    out = []
    for x in ip.iterate(args[1]):
        c = ip.truth(ip.call_v(args[0], [x], {})) if args[0] is not None else ip.truth(x)
        if ip.branch(c):
            out.append(x)
    return I.GenV(out)


@builtin("print")
def _print(ip, args, kw):
    return None


@builtin("repr")
def _repr(ip, args, kw):
    v = args[0]
    if isinstance(v, (str, int, bool)) or v is None:
        return repr(v)
    return OpaqueStr()


@builtin("id")
def _id(ip, args, kw):
    return id(args[0])


@builtin("hash")
def _hash(ip, args, kw):
    raise EngineError("hash()")


@builtin("divmod")
def _divmod(ip, args, kw):
    a, b = args
    ip._zero_check(b)
    return (ops.floordiv(a, b), ops.mod(a, b))


@builtin("sorted")
def _sorted(ip, args, kw):
    xs = args[0]
    key = kw.get("key")
    rev = kw.get("reverse", False)
    if isinstance(xs, SeqV) and not z3.is_int_value(z3.simplify(xs.length)):
        return seq_sorted(ip, xs, key, rev)
    items = ip.iterate(xs)
    return sym_sorted(ip, items, key, rev)


def _transpose(ip, seq):
    """zip(*rows) for a symbolic-length sequence of k-tuples: k columns of the same length.
    Python yields nothing for zero rows; that case is split off."""
    if not ip.branch(mk(seq.length > 0, "bool")):
        return []
    probe = seq.get(z3.Int(fresh_name("row")))
    if not isinstance(probe, tuple):
        raise EngineError("zip(*rows): rows of a symbolic-length sequence must be tuples")
    get = seq.get
    return [SeqV(seq.length, (lambda j, c=c: get(j)[c]), "tuple") for c in range(len(probe))]


def seq_sorted(ip, xs, key, rev=False):
    """sorted() of a sequence of unknown length.  ASSUMED semantics of the builtin (the only
    axiom): the result is the input rearranged by a bijection of [0, n) and its keys are
    non-decreasing, equal keys keeping their source order.  The bijection is logged as a
    ghost (`calls["builtins.sorted"][k].perm / .inv`) so that postconditions can name it."""
    if rev:
        raise EngineError("reverse sort of a symbolic-length sequence")
    n = xs.length
    get = xs.get
    tag = fresh_name("srt")
    perm = z3.Function(tag + "_perm", z3.IntSort(), z3.IntSort())
    inv = z3.Function(tag + "_inv", z3.IntSort(), z3.IntSort())
    i = z3.Int(tag + "_i")
    j = z3.Int(tag + "_j")
    ip.assume(z3.ForAll([i], z3.Implies(z3.And(0 <= i, i < n), z3.And(0 <= perm(i), perm(i) < n, inv(perm(i)) == i)), patterns=[perm(i)]))
    ip.assume(z3.ForAll([j], z3.Implies(z3.And(0 <= j, j < n), z3.And(0 <= inv(j), inv(j) < n, perm(inv(j)) == j)), patterns=[inv(j)]))

    def keyof(t):
        old = ip.pure
        ip.pure += 1
        try:
            return ip.call_v(key, [get(t)], {}) if key is not None else get(t)
        finally:
            ip.pure = old

    ka, kb = keyof(perm(i)), keyof(perm(j))
    le = ip.order("<=", ka, kb)
    eqk = ip.eq(ka, kb)
    ok = b_and(le, b_implies(eqk, mk(perm(i) < perm(j), "bool")))
    okt = to_bool_term(ok) if not isinstance(ok, bool) else z3.BoolVal(ok)
    ip.assume(z3.ForAll([i, j], z3.Implies(z3.And(0 <= i, i < j, j < n), okt), patterns=[z3.MultiPattern(perm(i), perm(j))]))
    ip.call_log.setdefault("builtins.sorted", []).append(
        I.NS(
            args=I.NS(iterable=xs),
            result=None,
            n=Sym(n, "int"),
            perm=I.PyFn("perm", lambda ip_, a, k: Sym(perm(term(a[0], "int")), "int")),
            inv=I.PyFn("inv", lambda ip_, a, k: Sym(inv(term(a[0], "int")), "int")),
        )
    )
    return SeqV(n, lambda t: get(perm(t)), "list")


def sym_sorted(ip, items, key, rev=False):
    keys = [ip.call_v(key, [x], {}) if key is not None else x for x in items]
    if not any(I._has_sym(k) for k in keys):
        try:
            order = sorted(range(len(items)), key=lambda i: _pykey(keys[i]), reverse=bool(rev))
            return [items[i] for i in order]
        except TypeError:
            raise PyRaise(ExcV("TypeError", ("unorderable",)))
    if rev:
        raise EngineError("reverse sort with symbolic keys")
    n = len(items)
    if n <= 1:
        return list(items)
    # permutation p: result[i] = items[p_i]
    ps = [z3.Int(fresh_name("perm")) for _ in range(n)]
    for p in ps:
        ip.assume(z3.And(p >= 0, p < n))
    ip.assume(z3.Distinct(*ps))

    def sel(vals, p):
        r = vals[n - 1]
        for k in reversed(range(n - 1)):
            r = ip.ite_val(mk(p == k, "bool"), vals[k], r)
        return r

    res = [sel(items, p) for p in ps]
    # ordering and stability, stated per pair of source positions (keys may be tuples of
    # different lengths, so they are never merged into one value)
    for i in range(n - 1):
        for a in range(n):
            for b in range(n):
                if a == b:
                    continue
                le = ip.order("<=", keys[a], keys[b])
                eqk = ip.eq(keys[a], keys[b])
                ok = b_and(le, b_implies(eqk, a < b))
                ip.assume(z3.Implies(z3.And(ps[i] == a, ps[i + 1] == b), to_bool_term(ok) if not isinstance(ok, bool) else z3.BoolVal(ok)))
    return res


def _pykey(k):
    if isinstance(k, I.EnumMember):
        return k.value
    if isinstance(k, tuple):
        return tuple(_pykey(x) for x in k)
    return k


# ------------------------------------------------------------------ methods of builtin types


def method(ip, obj, name):
    def fn(f):
        return I.PyFn(name, f)

    if isinstance(obj, str):
        if name in (
            "lower", "upper", "strip", "lstrip", "rstrip", "startswith", "endswith", "split", "partition", "rpartition",
            "replace", "isalpha", "isascii", "isdigit", "format", "join", "find", "index", "count", "encode", "title",
            "capitalize", "zfill", "ljust", "rjust", "splitlines", "isalnum", "islower", "isupper", "removeprefix", "removesuffix",
        ):
            def call(ip_, args, kw, obj=obj, name=name):
                if name == "join":
                    items = ip_.iterate(args[0])
                    if all(isinstance(x, str) for x in items):
                        return obj.join(items)
                    return OpaqueStr()
                if name == "format":
                    if any(I._has_sym(a) or isinstance(a, (Rec, OpaqueStr)) for a in list(args) + list(kw.values())):
                        return OpaqueStr()
                if any(I._has_sym(a) for a in args):
                    raise EngineError(f"str.{name} with symbolic argument")
                try:
                    r = getattr(obj, name)(*args, **kw)
                except (ValueError, IndexError) as e:
                    raise PyRaise(ExcV(type(e).__name__, ()))
                return r
            return fn(call)
    if isinstance(obj, OpaqueStr):
        if name in ("lower", "upper", "strip", "format"):
            return fn(lambda ip_, a, k: OpaqueStr())
    if isinstance(obj, Sym) and obj.sort == "str":
        if name == "startswith":
            def call(ip_, args, kw, obj=obj):
                return mk(z3.PrefixOf(term(args[0], "str"), obj.t), "bool")
            return fn(call)
    if isinstance(obj, list):
        if name == "append":
            return fn(lambda ip_, a, k: obj.append(a[0]))
        if name == "extend":
            return fn(lambda ip_, a, k: obj.extend(ip_.iterate(a[0])))
        if name == "insert":
            return fn(lambda ip_, a, k: obj.insert(a[0], a[1]))
        if name == "pop":
            def pop(ip_, a, k):
                try:
                    return obj.pop(*a)
                except IndexError:
                    raise PyRaise(ExcV("IndexError", ()))
            return fn(pop)
        if name == "copy":
            return fn(lambda ip_, a, k: list(obj))
        if name == "clear":
            return fn(lambda ip_, a, k: obj.clear())
        if name == "reverse":
            return fn(lambda ip_, a, k: obj.reverse())
        if name == "sort":
            def sort(ip_, a, k):
                obj[:] = sym_sorted(ip_, list(obj), k.get("key"), k.get("reverse", False))
            return fn(sort)
        if name == "remove":
            def remove(ip_, a, k):
                for i, x in enumerate(obj):
                    if ip_.branch(ip_.eq(x, a[0])):
                        del obj[i]
                        return
                raise PyRaise(ExcV("ValueError", ()))
            return fn(remove)
    if isinstance(obj, (list, tuple)):
        if name == "index":
            def index(ip_, a, k):
                for i, x in enumerate(obj):
                    if ip_.branch(ip_.eq(x, a[0])):
                        return i
                raise PyRaise(ExcV("ValueError", ("not in list",)))
            return fn(index)
        if name == "count":
            def count(ip_, a, k):
                acc = 0
                for x in obj:
                    acc = ops.add(acc, b_ite(ip_.eq(x, a[0]), 1, 0))
                return acc
            return fn(count)
    if isinstance(obj, dict):
        if name == "get":
            def get(ip_, a, k):
                key = ip_.hashable(a[0])
                return obj.get(key, a[1] if len(a) > 1 else None)
            return fn(get)
        if name == "items":
            return fn(lambda ip_, a, k: [(x, y) for x, y in obj.items()])
        if name == "keys":
            return fn(lambda ip_, a, k: list(obj.keys()))
        if name == "values":
            return fn(lambda ip_, a, k: list(obj.values()))
        if name == "pop":
            def pop(ip_, a, k):
                key = ip_.hashable(a[0])
                if key in obj:
                    return obj.pop(key)
                if len(a) > 1:
                    return a[1]
                raise PyRaise(ExcV("KeyError", (key,)))
            return fn(pop)
        if name == "setdefault":
            return fn(lambda ip_, a, k: obj.setdefault(ip_.hashable(a[0]), a[1] if len(a) > 1 else None))
        if name == "update":
            def upd(ip_, a, k):
                if a:
                    obj.update(a[0])
                obj.update(k)
            return fn(upd)
        if name == "copy":
            return fn(lambda ip_, a, k: dict(obj))
    if isinstance(obj, set):
        if name == "add":
            return fn(lambda ip_, a, k: obj.add(ip_.hashable(a[0])))
        if name == "update":
            def upd(ip_, a, k):
                for x in ip_.iterate(a[0]):
                    obj.add(ip_.hashable(x))
            return fn(upd)
        if name in ("union", "intersection", "difference", "issubset", "issuperset", "symmetric_difference", "isdisjoint"):
            return fn(lambda ip_, a, k: getattr(obj, name)(*[set(ip_.iterate(x)) for x in a]))
        if name == "discard":
            return fn(lambda ip_, a, k: obj.discard(a[0]))
        if name == "remove":
            def rm(ip_, a, k):
                if a[0] not in obj:
                    raise PyRaise(ExcV("KeyError", ()))
                obj.remove(a[0])
            return fn(rm)
    if isinstance(obj, FiniteSet):
        if name == "add":
            def add(ip_, a, k):
                if not ip_.branch(obj.contains(ip_, a[0])):
                    obj.items.append(a[0])
            return fn(add)
    if isinstance(obj, collections.deque):
        if name == "popleft":
            def popleft(ip_, a, k):
                if not obj:
                    raise PyRaise(ExcV("IndexError", ()))
                return obj.popleft()
            return fn(popleft)
        if name == "pop":
            def pop(ip_, a, k):
                if not obj:
                    raise PyRaise(ExcV("IndexError", ()))
                return obj.pop()
            return fn(pop)
        if name == "append":
            return fn(lambda ip_, a, k: obj.append(a[0]))
        if name == "appendleft":
            return fn(lambda ip_, a, k: obj.appendleft(a[0]))
    if isinstance(obj, SeqV):
        if name == "index":
            def index(ip_, a, k, obj=obj):
                x = a[0]
                j = z3.Int(fresh_name("qi"))
                found = z3.Exists([j], z3.And(j >= 0, j < obj.length, to_bool_term(ip_.eq(obj.get(j), x))))
                if not ip_.branch(mk(found, "bool")):
                    raise PyRaise(ExcV("ValueError", ("not in list",)))
                r = z3.Int(fresh_name("index"))
                j2 = z3.Int(fresh_name("qj"))
                ip_.assume(z3.And(r >= 0, r < obj.length, to_bool_term(ip_.eq(obj.get(r), x))))
                ip_.assume(z3.ForAll([j2], z3.Implies(z3.And(j2 >= 0, j2 < r), z3.Not(to_bool_term(ip_.eq(obj.get(j2), x))))))
                return Sym(r, "int")
            return fn(index)
        if name == "sort":
            def sort(ip_, a, k, obj=obj):
                # in place: the object changes, as for `x[:] = sorted(x, key=...)`
                frozen = SeqV(obj.length, obj.get, obj.kind, obj.name)
                new = seq_sorted(ip_, frozen, k.get("key"), k.get("reverse", False))
                obj.length, obj.get = new.length, new.get
                return None
            return fn(sort)
        if name == "append":
            raise EngineError("append on a symbolic sequence must go through a local name (handled in e_Call)")
    if isinstance(obj, Fraction) or isinstance(obj, int) and not isinstance(obj, bool):
        if name == "is_integer":
            return fn(lambda ip_, a, k: Fraction(obj).denominator == 1)
    if isinstance(obj, Sym) and obj.sort == "real" and name == "is_integer":
        return fn(lambda ip_, a, k: mk(z3.IsInt(obj.t), "bool"))
    if isinstance(obj, TypeV):
        if obj.name == "object" and name == "__setattr__":
            def osa(ip_, a, k):
                r, n, v = a
                if not isinstance(r, Rec):
                    raise EngineError("object.__setattr__ on non record")
                r.f[n] = v
            return fn(osa)
        if obj.name == "str" and name == "join":
            return fn(lambda ip_, a, k: OpaqueStr())
        if obj.name == "dict" and name == "fromkeys":
            return fn(lambda ip_, a, k: {ip_.hashable(x): (a[1] if len(a) > 1 else None) for x in ip_.iterate(a[0])})
    return None


# deque [0] / [-1]
def _deque_getitem(self, ip, idx):
    try:
        return collections.deque.__getitem__(self, idx)
    except IndexError:
        raise PyRaise(ExcV("IndexError", ()))


class DequeV(collections.deque):
    def get_item(self, ip, idx):
        return _deque_getitem(self, ip, idx)

    def iterate(self, ip):
        return list(self)


# ------------------------------------------------------------------ externals

_PAINT_FORMATS = [
    "PaintColrLayers", "PaintSolid", "PaintVarSolid", "PaintLinearGradient", "PaintVarLinearGradient",
    "PaintRadialGradient", "PaintVarRadialGradient", "PaintSweepGradient", "PaintVarSweepGradient", "PaintGlyph",
    "PaintColrGlyph", "PaintTransform", "PaintVarTransform", "PaintTranslate", "PaintVarTranslate", "PaintScale",
    "PaintVarScale", "PaintScaleAroundCenter", "PaintVarScaleAroundCenter", "PaintScaleUniform", "PaintVarScaleUniform",
    "PaintScaleUniformAroundCenter", "PaintVarScaleUniformAroundCenter", "PaintRotate", "PaintVarRotate",
    "PaintRotateAroundCenter", "PaintVarRotateAroundCenter", "PaintSkew", "PaintVarSkew", "PaintSkewAroundCenter",
    "PaintVarSkewAroundCenter", "PaintComposite",
]
PAINT_FORMAT = {n: i + 1 for i, n in enumerate(_PAINT_FORMATS)}  # checked natively against fontTools (dep: conformance)


def external_const(q):
    if q == "sys.float_info.epsilon":
        return Fraction(sys.float_info.epsilon)
    if q == "math.pi":
        return Sym(ops.PI, "real")
    if q.startswith("fontTools.ttLib.tables.otTables.PaintFormat."):
        n = q.rsplit(".", 1)[1]
        if n in PAINT_FORMAT:
            return PAINT_FORMAT[n]
    if q == "enum.Enum" or q == "enum.IntEnum":
        return NotImpl
    return NotImpl


_EXT = {}


def external(*names):
    def deco(f):
        for n in names:
            _EXT[n] = f
        return f

    return deco


class PyObjV:
    """a real Python object produced by a whitelisted pure library on concrete arguments"""

    def __init__(self, obj):
        self.obj = obj

    def get_attr(self, ip, name):
        a = getattr(self.obj, name)
        if callable(a):
            return I.PyFn(name, lambda ip_, args, kw, a=a: _native_call(a, args, kw))
        return _wrap_native(a)

    def truthy(self):
        return bool(self.obj)


def _wrap_native(r):
    if r is None or isinstance(r, (bool, int, str)):
        return r
    if isinstance(r, float):
        return ops.conc_float(r)
    if isinstance(r, tuple):
        return tuple(_wrap_native(x) for x in r)
    if isinstance(r, list):
        return [_wrap_native(x) for x in r]
    return PyObjV(r)


def _native_call(f, args, kw):
    def unwrap(v):
        if isinstance(v, PyObjV):
            return v.obj
        if v is None or isinstance(v, (bool, int, str)):
            return v
        if isinstance(v, Fraction):
            return float(v)
        if isinstance(v, tuple):
            return tuple(unwrap(x) for x in v)
        raise EngineError(f"native library call with non-concrete argument {v!r}")

    try:
        return _wrap_native(f(*[unwrap(a) for a in args], **{k: unwrap(v) for k, v in kw.items()}))
    except EngineError:
        raise
    except Exception as e:  # noqa: BLE001
        raise PyRaise(ExcV(type(e).__name__, ()))


_NATIVE_PURE = ("re.", "pathlib.PurePath", "pathlib.PurePosixPath", "pathlib.Path", "os.path.splitext", "os.path.basename", "os.path.dirname")


def call_external(ip, q, args, kw):
    f = _EXT.get(q)
    if f is not None:
        return f(ip, args, kw)
    if q.startswith(_NATIVE_PURE):
        import importlib

        if q.startswith("pathlib."):
            import pathlib

            # pure path arithmetic only (no file-system access): PurePosixPath stands in
            return _native_call(pathlib.PurePosixPath, args, kw)
        mod, _, fn = q.rpartition(".")
        return _native_call(getattr(importlib.import_module(mod), fn), args, kw)
    if q.startswith("absl.logging.") or q.startswith("logging."):
        # no effect on the computation; recorded in the ghost call log (a clause may require
        # that a warning was emitted)
        if not getattr(ip, "defining", 0):
            ip.call_log.setdefault(q, []).append(I.NS(args=I.NS(args=tuple(args)), result=None))
        return None
    if q.startswith("typing."):
        return None
    raise EngineError(f"call of external function {q} (no model, no contract)")


@external("math.floor")
def _floor(ip, a, k):
    return ops.floor(ip.unwrap(a[0]))


@external("math.ceil")
def _ceil(ip, a, k):
    return ops.ceil(ip.unwrap(a[0]))


@external("math.hypot")
def _hypot(ip, a, k):
    memo = ip.__dict__.setdefault("_hypot_memo", {})
    key = tuple(str(term(x, "real").sexpr()) for x in a[:2])
    if key not in memo:
        memo[key] = ops.hypot(a[0], a[1], ip.assume)
    return memo[key]


@external("math.sqrt")
def _sqrt(ip, a, k):
    memo = ip.__dict__.setdefault("_sqrt_memo", {})
    key = str(term(a[0], "real").sexpr())
    if key not in memo:
        memo[key] = ops.sqrt(a[0], ip.assume)
    return memo[key]


@external("math.radians")
def _radians(ip, a, k):
    for t in ops.PI_AXIOMS:
        ip.assume(t)
    if is_conc_num(a[0]) and a[0] == 0:
        return 0
    return mk(term(a[0], "real") * ops.PI / 180, "real")


@external("math.copysign")
def _copysign(ip, a, k):
    s, d = a
    return b_ite(ops.cmp_num(">=", d, 0), ops.absv(s), ops.neg(ops.absv(s)))


@external("math.sin")
def _sin(ip, a, k):
    return ops.trig("sin", a[0], ip.assume)


@external("math.cos")
def _cos(ip, a, k):
    return ops.trig("cos", a[0], ip.assume)


@external("math.tan")
def _tan(ip, a, k):
    return ops.trig("tan", a[0], ip.assume)


@external("math.isclose")
def _isclose(ip, a, k):
    raise EngineError("math.isclose")


@external("dataclasses.replace")
def _dc_replace(ip, a, k):
    r = a[0]
    if not isinstance(r, Rec):
        raise EngineError("dataclasses.replace on non record")
    f = dict(r.f)
    for kk in k:
        if kk not in f:
            raise PyRaise(ExcV("TypeError", (f"no field {kk}",)))
    f.update(k)
    names = [x[0] for x in r.cls.all_fields()]
    return ip.construct(r.cls, [], {n: f[n] for n in names})


@external("dataclasses.fields")
def _dc_fields(ip, a, k):
    r = a[0]
    cls = r.cls if isinstance(r, Rec) else r
    return tuple(I.NS(name=f[0]) for f in cls.all_fields())


@external("dataclasses.astuple")
def _dc_astuple(ip, a, k):
    r = a[0]
    return tuple(r.f[f[0]] for f in r.cls.all_fields())


@external("functools.reduce")
def _reduce(ip, a, k):
    f, items = a[0], ip.iterate(a[1])
    if len(a) > 2:
        acc = a[2]
    else:
        if not items:
            raise PyRaise(ExcV("TypeError", ("reduce of empty",)))
        acc, items = items[0], items[1:]
    for x in items:
        acc = ip.call_v(f, [acc, x], {})
    return acc


@external("operator.matmul")
def _matmul(ip, a, k):
    return ip.binop(ast.MatMult(), a[0], a[1])


@external("typing.cast")
def _cast(ip, a, k):
    return a[1]


@external("collections.deque")
def _deque(ip, a, k):
    if a and isinstance(a[0], SeqV):
        from .loops import WindowV

        return WindowV(a[0])
    return DequeV(ip.iterate(a[0]) if a else [])


@external("itertools.chain")
def _chain(ip, a, k):
    out = []
    for x in a:
        out.extend(ip.iterate(x))
    return I.GenV(out)


@external("itertools.product")
def _product(ip, a, k):
    import itertools

    return I.GenV([tuple(t) for t in itertools.product(*[ip.iterate(x) for x in a])])


@external("itertools.combinations")
def _combinations(ip, a, k):
    import itertools

    return I.GenV([tuple(t) for t in itertools.combinations(ip.iterate(a[0]), a[1])])


@external("itertools.chain.from_iterable")
def _chain_from_iterable(ip, a, k):
    out = []
    for x in ip.iterate(a[0]):
        out.extend(ip.iterate(x))
    return I.GenV(out)


@external("fontTools.misc.roundTools.otRound")
def _otround(ip, a, k):
    return ops.floor(ops.add(a[0], Fraction(1, 2)))


class ElemV:
    """minimal model of an lxml element: tag, attribute map, children; `base_len` stands for
    children that existed before (unknown number)"""

    def __init__(self, tag, attrib=None, base_len=0, nsmap=None):
        self.tag = tag
        self.attrib = attrib if attrib is not None else {}
        self.children = []
        self.base_len = base_len
        self.nsmap = nsmap or {}
        self.parent = None

    def length(self, ip):
        return ops.add(self.base_len, len(self.children))

    def iterate(self, ip):
        if not (isinstance(self.base_len, int) and self.base_len == 0):
            raise EngineError("iteration over an element with unknown children")
        return list(self.children)

    def get_attr(self, ip, name):
        if name in ("tag", "attrib", "nsmap", "children"):
            return getattr(self, name)
        if name == "append":
            def append(ip_, a, k):
                self.children.append(a[0])
                if isinstance(a[0], ElemV):
                    a[0].parent = self
            return I.PyFn("append", append)
        if name == "getparent":
            return I.PyFn("getparent", lambda ip_, a, k: self.parent)
        if name == "get":
            return I.PyFn("get", lambda ip_, a, k: self.attrib.get(a[0], a[1] if len(a) > 1 else None))
        raise EngineError(f"lxml element .{name} is not modelled")

    def truthy(self):
        return True


@external("lxml.etree.SubElement")
def _subelement(ip, a, k):
    parent, tag = a[0], a[1]
    el = ElemV(tag, dict(a[2]) if len(a) > 2 else {}, 0, k.get("nsmap"))
    if not isinstance(parent, ElemV):
        raise EngineError("SubElement of a non-modelled parent")
    parent.children.append(el)
    el.parent = parent
    return el


@external("lxml.etree.Element")
def _element(ip, a, k):
    return ElemV(a[0], {}, 0, k.get("nsmap"))


@external("lxml.etree.QName")
def _qname(ip, a, k):
    el = a[0]
    tag = el.tag if isinstance(el, ElemV) else el
    if isinstance(tag, str):
        local = tag[tag.index("}") + 1 :] if "}" in tag else tag
        return I.NS(localname=local, text=tag)
    raise EngineError("QName of symbolic tag")


# ------------------------------------------------------------------ vlib (symbolic half)


def vlib(name):
    def deco(f):
        _B[name] = I.PyFn(name, f)
        _EXT["vlib." + name] = f
        return f

    return deco


@vlib("implies")
def _implies(ip, a, k):
    return b_implies(ip.truth(a[0]), ip.truth(a[1]))


@vlib("iff")
def _iff(ip, a, k):
    x, y = ip.truth(a[0]), ip.truth(a[1])
    return b_and(b_implies(x, y), b_implies(y, x))


def _flat(ip, v):
    v = ip.unwrap(v)
    if isinstance(v, Rec):
        out = []
        for f in (v.cls.fields if v.cls.kind == "namedtuple" else v.cls.all_fields()):
            out += _flat(ip, v.f[f[0]])
        return out
    if isinstance(v, (tuple, list)):
        out = []
        for x in v:
            out += _flat(ip, x)
        return out
    return [v]


@vlib("close")
def _close(ip, a, k):
    x, y, eps = a
    fx, fy = _flat(ip, x), _flat(ip, y)
    if len(fx) != len(fy):
        return False
    out = []
    for p, q in zip(fx, fy):
        d = ops.sub(p, q)
        out.append(ops.cmp_num("<=", d, eps))
        out.append(ops.cmp_num("<=", ops.neg(d), eps))
    return b_and(*out)


@vlib("kind")
def _kind(ip, a, k):
    v = a[0]
    if isinstance(v, Rec):
        return v.cls.name
    if v is None:
        return "NoneType"
    if isinstance(v, Opaque):
        return "opaque:" + v.tag
    if isinstance(v, bool):
        return "bool"
    if isinstance(v, int) or isinstance(v, Sym) and v.sort == "int":
        return "int"
    if isinstance(v, Fraction) or isinstance(v, Sym) and v.sort == "real":
        return "float"
    if isinstance(v, tuple):
        return "tuple"
    if isinstance(v, list) or isinstance(v, SeqV):
        return "list"
    if isinstance(v, str) or isinstance(v, Sym) and v.sort == "str":
        return "str"
    if isinstance(v, dict):
        return "dict"
    if isinstance(v, Opt):
        raise EngineError("kind() of an optional with unknown presence")
    return type(v).__name__


@vlib("is_int")
def _is_int(ip, a, k):
    v = a[0]
    if isinstance(v, int):
        return True
    if isinstance(v, Fraction):
        return v.denominator == 1
    if v.sort == "int":
        return True
    return mk(z3.IsInt(v.t), "bool")


@vlib("isnone")
def _isnone(ip, a, k):
    return ip.is_(a[0], None)


def quantified_range(ip, gen, env):
    """`all(p(i) for i in range(a, b))` with a symbolic bound, in a pure context -> quantifier"""
    if not ip.pure or len(gen.generators) != 1:
        return None
    g = gen.generators[0]
    if not (isinstance(g.iter, ast.Call) and isinstance(g.iter.func, ast.Name) and g.iter.func.id == "range" and isinstance(g.target, ast.Name)):
        return None
    r = ip.eval(g.iter, env)
    if isinstance(r, SymRange):
        return r
    return None


def quantify(ip, is_all, gen, env, r):
    g = gen.generators[0]
    v = z3.Int(fresh_name("q_" + g.target.id))
    cenv = I.Env({g.target.id: Sym(v, "int")}, env)
    guard = [to_bool_term(b_and(ops.cmp_num("<=", r.lo, Sym(v, "int")), ops.cmp_num("<", Sym(v, "int"), r.hi)))]
    for c in g.ifs:
        guard.append(to_bool_term(ip.cond(c, cenv)))
    body = to_bool_term(ip.truth(ip.eval(gen.elt, cenv)))
    if is_all:
        return mk(z3.ForAll([v], z3.Implies(z3.And(*guard), body)), "bool")
    return mk(z3.Exists([v], z3.And(*guard, body)), "bool")


def _quant_fn(is_all):
    def f(ip, a, k):
        lo, hi, fn = a
        if isinstance(lo, int) and isinstance(hi, int) and hi - lo <= 64:
            vals = [ip.truth(ip.call_v(fn, [i], {})) for i in range(lo, hi)]
            return b_and(*vals) if is_all else b_or(*vals)
        v = z3.Int(fresh_name("q"))
        sv = Sym(v, "int")
        guard = to_bool_term(b_and(ops.cmp_num("<=", lo, sv), ops.cmp_num("<", sv, hi)))
        old = ip.pure
        ip.pure += 1
        try:
            body = to_bool_term(ip.truth(ip.call_v(fn, [sv], {})))
        finally:
            ip.pure = old
        if is_all:
            return mk(z3.ForAll([v], z3.Implies(guard, body)), "bool")
        return mk(z3.Exists([v], z3.And(guard, body)), "bool")

    return f


vlib("forall")(_quant_fn(True))
vlib("exists")(_quant_fn(False))


@vlib("map_has")
def _map_has(ip, a, k):
    return a[0].contains(ip, a[1])


@vlib("map_has_set")
def _map_has_set(ip, a, k):
    return a[0].contains(ip, a[1])


@vlib("map_get")
def _map_get(ip, a, k):
    return a[0].value_at(term(a[1], a[0].ksort))


@vlib("map_same")
def _map_same(ip, a, k):
    m1, m2 = a
    if isinstance(m1, PredSetV):
        return mk(m1.present == m2.present, "bool")
    return mk(z3.And(m1.present == m2.present, *[x[0] == y[0] for x, y in zip(m1.comps, m2.comps)]), "bool")


@vlib("map_is_update")
def _map_is_update(ip, a, k):
    new, old, key, val = a
    kt = term(key, old.ksort)
    vs = list(val) if old.is_tuple else [val]
    return mk(
        z3.And(
            new.present == z3.Store(old.present, kt, z3.BoolVal(True)),
            *[n_[0] == z3.Store(o_[0], kt, term(x, o_[1])) for n_, o_, x in zip(new.comps, old.comps, vs)],
        ),
        "bool",
    )


@vlib("set_is_add")
def _set_is_add(ip, a, k):
    new, old, x = a
    return mk(new.present == z3.Store(old.present, term(x, old.ksort), z3.BoolVal(True)), "bool")


_UFN = {}


@vlib("ufn")
def _ufn(ip, a, k):
    """application of an uninterpreted function: ufn("name", "sort", *args)"""
    name, sort = a[0], a[1]
    args = a[2:]
    ts = []
    for x in args:
        for y in _flat(ip, x):
            ts.append(term(y) if not isinstance(y, Opaque) else y.t)
    key = (name, sort, tuple(t.sort().name() for t in ts))
    if key not in _UFN:
        from . import shapes as S_

        _UFN[key] = z3.Function(name, *[t.sort() for t in ts], S_._z3sort(sort))
    return mk(_UFN[key](*ts), sort) if sort != "str" else Sym(_UFN[key](*ts), "str")


@vlib("seq_len")
def _seq_len(ip, a, k):
    return _len(ip, a, k)


@vlib("same")
def _same(ip, a, k):
    """identity: the very same value (for opaque subtrees: equal)"""
    x, y = a
    if x is y:
        return True
    if isinstance(x, (Opaque, Rec)) and isinstance(y, (Opaque, Rec)):
        return ip.eq(x, y)
    return ip.is_(x, y)


@vlib("raises_kind")
def _raises_kind(ip, a, k):
    raise EngineError("raises_kind is a native-only helper")
