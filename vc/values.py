"""Value domain of the mixed concrete/symbolic interpreter.

Concrete Python values stay Python values (int, bool, str, None, tuple, list, dict,
Fraction for floats -- assumption A-real: a float literal denotes its decimal value and
float arithmetic is exact real arithmetic).  Unknown scalars are `Sym` (a z3 term plus a
sort tag).  Immutable records (NamedTuple / dataclass instances) and plain objects are
`Rec`.  Sequences of unknown length are `SeqV`.
"""
from fractions import Fraction
import z3


class EngineError(Exception):
    """The checker cannot handle the code or the contract (exit 3), never a violation."""


class Sym:
    __slots__ = ("t", "sort")

    def __init__(self, t, sort):
        self.t = t
        self.sort = sort  # 'int' | 'real' | 'bool' | 'str'

    def __repr__(self):
        return f"Sym<{self.sort}:{self.t}>"

    def __bool__(self):
        raise EngineError(f"symbolic value {self} used as a concrete bool")

    def __hash__(self):
        return hash((self.sort, self.t.get_id()))

    def __eq__(self, other):  # identity-ish; real comparisons go through ops.eq
        return isinstance(other, Sym) and self.sort == other.sort and self.t.eq(other.t)


class Opaque:
    """A value of an uninterpreted sort (a paint subtree, a ufo, an lxml element ...).
    Only equality and identity are defined on it."""

    __slots__ = ("t", "tag")

    def __init__(self, t, tag):
        self.t = t
        self.tag = tag

    def __repr__(self):
        return f"Opaque<{self.tag}:{self.t}>"


class Opt:
    """Optional[T] with an unknown presence flag."""

    __slots__ = ("present", "value")

    def __init__(self, present, value):
        self.present = present  # z3 Bool term
        self.value = value


class Rec:
    __slots__ = ("cls", "f", "mutable", "oid")
    _next = [0]

    def __init__(self, cls, fields, mutable=False):
        self.cls = cls
        self.f = fields
        self.mutable = mutable
        Rec._next[0] += 1
        self.oid = Rec._next[0]

    def __repr__(self):
        return f"{self.cls.name}({', '.join(f'{k}={v!r}' for k, v in self.f.items())})"


class SeqV:
    """Sequence of unknown length: `length` is a z3 Int term, `get(i)` maps a z3 Int term
    to a value (functional representation, so append/slice are closures)."""

    __slots__ = ("length", "get", "kind", "name")

    def __init__(self, length, get, kind="list", name=None):
        self.length = length
        self.get = get
        self.kind = kind  # 'list' | 'tuple' | 'deque'
        self.name = name

    def __repr__(self):
        return f"SeqV<{self.name or ''} len={self.length}>"


class SetV:
    """Finite set of unknown size: an enumeration sequence with pairwise distinct
    elements (iteration order = that arbitrary enumeration)."""

    __slots__ = ("enum",)

    def __init__(self, enum):
        self.enum = enum


class MapV:
    """dict with keys of one scalar sort and values that are tuples of scalars (or one
    scalar): a presence array plus one array per component.  Mutable like a Python dict
    (the arrays are replaced in place), copied by .snapshot()."""

    def __init__(self, ksort, present, comps, is_tuple):
        self.ksort = ksort
        self.present = present
        self.comps = list(comps)  # [(z3 array, sort tag)]
        self.is_tuple = is_tuple

    def snapshot(self):
        return MapV(self.ksort, self.present, list(self.comps), self.is_tuple)

    def value_at(self, k):
        vals = [Sym(z3.Select(a, k), srt) for a, srt in self.comps]
        return tuple(vals) if self.is_tuple else vals[0]

    # interpreter protocol
    def contains(self, ip, x):
        return mk(z3.Select(self.present, term(x, self.ksort)), "bool")

    def get_item(self, ip, k):
        kt = term(k, self.ksort)
        if not ip.pure:
            if not ip.branch(mk(z3.Select(self.present, kt), "bool")):
                raise PyRaise(ExcV("KeyError", ()))
        return self.value_at(kt)

    def set_item(self, ip, k, v):
        kt = term(k, self.ksort)
        vs = list(v) if self.is_tuple else [v]
        if len(vs) != len(self.comps):
            raise EngineError("map value of the wrong arity")
        self.present = z3.Store(self.present, kt, z3.BoolVal(True))
        self.comps = [(z3.Store(a, kt, term(x, srt)), srt) for (a, srt), x in zip(self.comps, vs)]

    def get_attr(self, ip, name):
        from . import interp as I

        if name == "setdefault":
            def setdefault(ip_, a, k):
                kt = term(a[0], self.ksort)
                has = mk(z3.Select(self.present, kt), "bool")
                if ip_.branch(has):
                    return self.value_at(kt)
                self.set_item(ip_, a[0], a[1])
                return a[1]
            return I.PyFn("setdefault", setdefault)
        if name == "get":
            def get(ip_, a, k):
                kt = term(a[0], self.ksort)
                if ip_.branch(mk(z3.Select(self.present, kt), "bool")):
                    return self.value_at(kt)
                return a[1] if len(a) > 1 else None
            return I.PyFn("get", get)
        if name == "pop":
            def pop(ip_, a, k):
                kt = term(a[0], self.ksort)
                if ip_.branch(mk(z3.Select(self.present, kt), "bool")):
                    v = self.value_at(kt)
                    self.present = z3.Store(self.present, kt, z3.BoolVal(False))
                    return v
                if len(a) > 1:
                    return a[1]
                raise PyRaise(ExcV("KeyError", ()))
            return I.PyFn("pop", pop)
        raise EngineError(f"dict.{name} on a symbolic map")

    def truthy(self):
        raise EngineError("truthiness of a symbolic map")


class PredSetV:
    """set of scalars of one sort as a characteristic array"""

    def __init__(self, ksort, present):
        self.ksort = ksort
        self.present = present

    def snapshot(self):
        return PredSetV(self.ksort, self.present)

    def contains(self, ip, x):
        return mk(z3.Select(self.present, term(x, self.ksort)), "bool")

    def get_attr(self, ip, name):
        if name == "add":
            from . import interp as I

            def add(ip_, a, k):
                self.present = z3.Store(self.present, term(a[0], self.ksort), z3.BoolVal(True))
            return I.PyFn("add", add)
        raise EngineError(f"set.{name} on a symbolic set")


class SizedV:
    """bytes-like ghost: only its length is known"""

    __slots__ = ("n",)

    def __init__(self, n):
        self.n = n

    def length(self, ip):
        return mk(self.n, "int")


class ExcV:
    def __init__(self, cls_name, args=()):
        self.cls_name = cls_name
        self.args = args

    def __repr__(self):
        return f"{self.cls_name}{self.args!r}"


class PyRaise(Exception):
    def __init__(self, exc):
        self.exc = exc


class ExternalV:
    """Something from a module the engine does not interpret."""

    __slots__ = ("qual",)

    def __init__(self, qual):
        self.qual = qual

    def __repr__(self):
        return f"External<{self.qual}>"


class OpaqueStr:
    """A string whose content is irrelevant (exception / log messages)."""

    def __repr__(self):
        return "<opaque str>"


NotImpl = type("NotImpl", (), {"__repr__": lambda s: "NotImplemented"})()

# --------------------------------------------------------------------------- scalars

_counter = [0]


def fresh_name(prefix):
    _counter[0] += 1
    return f"{prefix}!{_counter[0]}"


def fresh(sort, prefix="v"):
    n = fresh_name(prefix)
    if sort == "int":
        return Sym(z3.Int(n), "int")
    if sort == "real":
        return Sym(z3.Real(n), "real")
    if sort == "bool":
        return Sym(z3.Bool(n), "bool")
    if sort == "str":
        return Sym(z3.String(n), "str")
    raise EngineError(f"bad sort {sort}")


def is_num(v):
    return (isinstance(v, (int, Fraction)) and not isinstance(v, bool)) or (
        isinstance(v, Sym) and v.sort in ("int", "real")
    )


def is_conc_num(v):
    return isinstance(v, (int, Fraction)) and not isinstance(v, bool)


def sort_of(v):
    if isinstance(v, Sym):
        return v.sort
    if isinstance(v, bool):
        return "bool"
    if isinstance(v, int):
        return "int"
    if isinstance(v, Fraction):
        return "real"
    if isinstance(v, str):
        return "str"
    raise EngineError(f"no scalar sort for {v!r}")


def term(v, want=None):
    """z3 term of a scalar value, optionally coerced to sort `want`."""
    if isinstance(v, Sym):
        t, s = v.t, v.sort
    elif isinstance(v, bool):
        t, s = z3.BoolVal(v), "bool"
    elif isinstance(v, int):
        t, s = z3.IntVal(v), "int"
    elif isinstance(v, Fraction):
        t, s = z3.RealVal(str(v)), "real"
    elif isinstance(v, str):
        t, s = z3.StringVal(v), "str"
    elif isinstance(v, float):
        t, s = z3.RealVal(str(Fraction(repr(v)))), "real"
    else:
        raise EngineError(f"no term for {v!r}")
    if want and want != s:
        if want == "real" and s == "int":
            return z3.ToReal(t)
        if want == "real" and s == "bool":
            return z3.If(t, z3.RealVal(1), z3.RealVal(0))
        if want == "int" and s == "bool":
            return z3.If(t, z3.IntVal(1), z3.IntVal(0))
        raise EngineError(f"cannot coerce {v!r} to {want}")
    return t


def num_sort(a, b):
    sa, sb = sort_of(a), sort_of(b)
    if sa == "bool":
        sa = "int"
    if sb == "bool":
        sb = "int"
    if sa not in ("int", "real") or sb not in ("int", "real"):
        raise EngineError(f"non numeric operands {a!r} {b!r}")
    return "real" if "real" in (sa, sb) else "int"


def simp(t):
    return z3.simplify(t)


def mk(t, sort):
    """Wrap a term; fold to a concrete value if it simplifies to a literal."""
    t = z3.simplify(t)
    if sort == "bool":
        if z3.is_true(t):
            return True
        if z3.is_false(t):
            return False
    elif sort == "int":
        if z3.is_int_value(t):
            return t.as_long()
    elif sort == "real":
        if z3.is_rational_value(t):
            return Fraction(t.numerator_as_long(), t.denominator_as_long())
    return Sym(t, sort)


def to_bool_term(v):
    """Truthiness of a scalar as a z3 Bool."""
    if isinstance(v, Sym):
        if v.sort == "bool":
            return v.t
        if v.sort == "int":
            return v.t != 0
        if v.sort == "real":
            return v.t != 0
        return v.t != z3.StringVal("")
    return z3.BoolVal(bool(v))


def b_and(*xs):
    ts = []
    for x in xs:
        if x is True:
            continue
        if x is False:
            return False
        ts.append(to_bool_term(x))
    if not ts:
        return True
    return mk(z3.And(*ts), "bool")


def b_or(*xs):
    ts = []
    for x in xs:
        if x is False:
            continue
        if x is True:
            return True
        ts.append(to_bool_term(x))
    if not ts:
        return False
    return mk(z3.Or(*ts), "bool")


def b_not(x):
    if isinstance(x, bool):
        return not x
    return mk(z3.Not(to_bool_term(x)), "bool")


def b_implies(a, b):
    return b_or(b_not(a), b)


def b_ite(c, a, b):
    """scalar if-then-else"""
    if isinstance(c, bool):
        return a if c else b
    if not isinstance(a, Sym) and not isinstance(b, Sym) and type(a) == type(b) and a == b:
        return a
    sa, sb = sort_of(a), sort_of(b)
    if sa == sb:
        s = sa
    elif {sa, sb} <= {"int", "real", "bool"}:
        s = "real" if "real" in (sa, sb) else "int"
    else:
        raise EngineError(f"ite over different sorts {a!r} {b!r}")
    return mk(z3.If(to_bool_term(c), term(a, s), term(b, s)), s)
