"""Check one property:  python3-vt vc/run.py --property C16 [--tier quick|thorough] [--repo DIR]

exit 0 held / 1 VIOLATION (line printed) / 2 undecided / 3 checker error.
"""
import argparse
import ast
import glob
import hashlib
import json
import multiprocessing as mp
import os
import re
import subprocess
import sys
import time
import traceback

HERE = os.path.dirname(os.path.dirname(os.path.abspath(__file__)))
sys.path.insert(0, HERE)

VENV_PY = "/venv/bin/python"


def contract_modules():
    return sorted(os.path.basename(p)[:-3] for p in glob.glob(os.path.join(HERE, "contracts", "c_*.py")))


_W = {}


def _world(repo):
    from vc import prover as P

    if repo not in _W:
        os.environ["VERIF_REPO"] = repo
        P.REPO = repo
        w = P.make_world(repo)
        allc = []
        for m in contract_modules():
            allc.extend(P.load_contracts(w, m))
        w.lemmas = {c.target: c for c in allc if c.kind == "lemma"}
        w.local_stubs = {c.target: c for c in allc if c.kind != "lemma" and c.modular and c.local_only}
        for c in allc:
            if c.kind != "lemma" and c.modular and not c.local_only:
                if c.target in w.contracts:
                    # several contracts on one function (different arities): first modular wins
                    continue
                w.contracts[c.target] = c
        w.base_contracts = dict(w.contracts)
        _W[repo] = (w, allc)
    return _W[repo]


def _work(job):
    repo, cname, tier, known, variant = job
    from vc import prover as P
    from vc import loops as L
    from vc.values import EngineError

    t0 = time.time()
    try:
        w, allc = _world(repo)
        c = [x for x in allc if f"{x.module}.{x.name}" == cname][0]
        r = P.verify_contract(w, c, tier, loop_support=L, known=known, only_variant=variant)
        r["ok"] = True
        r["variant"] = variant
        return r
    except EngineError as e:
        return {"ok": False, "contract": cname, "error": f"EngineError: {e}", "trace": traceback.format_exc(), "wall_s": time.time() - t0}
    except Exception as e:  # noqa: BLE001
        return {"ok": False, "contract": cname, "error": f"{type(e).__name__}: {e}", "trace": traceback.format_exc(), "wall_s": time.time() - t0}


def clause_of(obl_name):
    return obl_name.split("@")[0]


def load_known():
    p = os.path.join(HERE, "known_findings.json")
    if not os.path.exists(p):
        return []
    return json.load(open(p)).get("findings", [])


def main():
    ap = argparse.ArgumentParser()
    ap.add_argument("--property", required=True)
    ap.add_argument("--tier", default=os.environ.get("VERIF_TIER", "quick"))
    ap.add_argument("--repo", default=os.environ.get("VERIF_REPO", "/repo"))
    ap.add_argument("--jobs", type=int, default=min(16, os.cpu_count() or 4))
    ap.add_argument("--only", default=None)
    ap.add_argument("--no-native", action="store_true")
    ap.add_argument("--update-baseline", action="store_true")
    ap.add_argument("--evidence", default=None)
    ap.add_argument("--verbose", "-v", action="store_true")
    args = ap.parse_args()
    if args.tier not in ("quick", "thorough"):
        args.tier = "quick"
    seed = int(os.environ.get("VERIF_SEED", "0") or 0)
    t_start = time.time()
    prop = args.property
    repo = os.path.abspath(args.repo)
    os.makedirs(os.path.join(HERE, "work"), exist_ok=True)
    os.environ["VERIF_TMP"] = os.path.join(HERE, "work")

    known_all = load_known()
    known = [k for k in known_all if k.get("status") == "known" and (k.get("property") == prop or prop in k.get("properties", []))]

    try:
        w, allc = _world(repo)
    except Exception as e:  # noqa: BLE001
        print(f"CHECKER-ERROR: cannot load contracts: {e}")
        traceback.print_exc()
        return 3
    mine = [c for c in allc if prop in c.props]
    used_lemmas = {ln for c in mine for lst in c.uses.values() for (ln, _f) in lst}
    mine += [c for c in allc if c.kind == "lemma" and c.target in used_lemmas and c not in mine]
    if args.only:
        mine = [c for c in mine if args.only in c.name or args.only in c.target]
    proved = [c for c in mine if not c.bounded_only and not c.assumed]
    from vc import prover as P_

    jobs = []
    for c in proved:
        kn = [k for k in known if k.get("contract") == f"{c.module}.{c.name}"]
        nv = P_.n_variants(c)
        for vi in range(nv) if nv > 1 else [None]:
            jobs.append((repo, f"{c.module}.{c.name}", args.tier, kn, vi))
    jobs.sort(key=lambda j: -(j[4] or 0))  # larger variants first

    # native tier runs concurrently with the prover
    native_out = os.path.join(HERE, "work", f"native_{prop}_{os.getpid()}.json")
    nat = None
    if not args.no_native:
        cmd = [VENV_PY, os.path.join(HERE, "vc", "native.py"), "bounded", "--property", prop, "--tier", args.tier, "--seed", str(seed), "--out", native_out, "--repo", repo]
        if args.only:
            cmd += ["--only", args.only]
        nat = subprocess.Popen(cmd, stdout=subprocess.PIPE, stderr=subprocess.STDOUT, text=True)

    results = []
    if jobs:
        ctx = mp.get_context("fork")
        with ctx.Pool(min(args.jobs, len(jobs))) as pool:
            for r in pool.imap_unordered(_work, jobs, chunksize=1):
                results.append(r)
                if args.verbose:
                    if r.get("ok"):
                        bad = [o for o in r["obligations"] if o["verdict"] != "unsat"]
                        print(f"  {r['contract']}: {len(r['obligations'])} obligations, {len(bad)} not discharged, {r['wall_s']}s", flush=True)
                    else:
                        print(f"  {r['contract']}: {r['error']}", flush=True)

    results = merge_variants(results)
    native = None
    native_err = None
    if nat is not None:
        out, _ = nat.communicate()
        if nat.returncode != 0 or not os.path.exists(native_out):
            native_err = f"native tier exited {nat.returncode}: {out[-3000:]}"
        else:
            native = json.load(open(native_out))
            os.unlink(native_out)

    # ------------------------------------------------------------------ verdicts
    violations = []  # (obligation, replay path, suffix)
    known_hits = []
    undecided = []
    errors = []
    baseline_path = os.path.join(HERE, "baseline", "functions.json")
    baseline = json.load(open(baseline_path)) if os.path.exists(baseline_path) else {}
    new_baseline = {}
    n_obl = n_dis = 0
    by_backend = {}
    solver_s = 0.0
    slowest = []
    functions = []
    trusted = set()
    samples = []
    covers = {"paths": 0, "sat": 0, "unknown": 0}
    bounded_symbolic = {}
    dep_checked = {}
    replay_dir = os.path.join(HERE, "replays", prop)
    if os.path.isdir(replay_dir) and repo == "/repo":
        for f_ in os.listdir(replay_dir):
            os.unlink(os.path.join(replay_dir, f_))

    for r in sorted(results, key=lambda x: x.get("contract", "")):
        if not r.get("ok"):
            errors.append(f"{r['contract']}: {r['error']}")
            if args.verbose:
                print(r.get("trace", ""))
            continue
        cname = r["contract"]
        functions.append({"function": r["target"], "contract": cname, "file": r.get("file"), "line": r.get("lineno"), "source_sha256": r.get("source_sha256"), "kind": r["kind"], "paths": r["covers"]["paths"], "obligations": len(r["obligations"])})
        for k in ("paths", "sat", "unknown"):
            covers[k] += r["covers"].get(k, 0)
        if r["covers"]["paths"] == 0 or (r["covers"]["sat"] + r["covers"]["unknown"] == 0 and r["kind"] != "lemma"):
            errors.append(f"{cname}: vacuous (no feasible path: contradictory requires?)")
        for t in r.get("trusted", []):
            trusted.add(t)
        if r.get("sample_smt2") and len(samples) < 3:
            samples.append({"obligation": f"{prop}/{r['target']}/{r['sample_smt2']['name']}", "verdict": "unsat", "smt2": r["sample_smt2"]["smt2"][:1500]})
        base = baseline.get(cname, {})
        changed = base.get("source_sha256") != r.get("source_sha256")
        nb = {"source_sha256": r.get("source_sha256"), "discharged": sorted({clause_of(o["name"]) for o in r["obligations"] if o["verdict"] == "unsat"})}
        new_baseline[cname] = nb
        scoped = r.get("scope")
        if scoped:
            bs = bounded_symbolic.setdefault(cname, {"function": r["target"], "scope": scoped, "obligations": 0, "discharged": 0})
        if r.get("dep"):
            ds = dep_checked.setdefault(cname, {"function": r["target"], "obligations": 0, "discharged": 0})
        for o in r["obligations"]:
            if scoped:
                bs["obligations"] += 1
                bs["discharged"] += o["verdict"] == "unsat"
                n_obl -= 1
                n_dis -= o["verdict"] == "unsat"
            elif r.get("dep"):
                ds["obligations"] += 1
                ds["discharged"] += o["verdict"] == "unsat"
                n_obl -= 1
                n_dis -= o["verdict"] == "unsat"
            n_obl += 1
            solver_s += o["time"]
            slowest.append((o["time"], f"{r['target']}/{o['name']}"))
            full = f"{prop}/{r['target']}/{o['name']}"
            if o["verdict"] == "unsat":
                n_dis += 1
                by_backend[o["backend"]] = by_backend.get(o["backend"], 0) + 1
                if o.get("known"):
                    known_hits.append((o["known"], full, o))
                continue
            if o["verdict"] == "sat":
                path = write_replay(replay_dir, prop, r, o, full)
                violations.append((full, path, o))
            else:
                if changed and clause_of(o["name"]) in base.get("discharged", []):
                    path = write_replay(replay_dir, prop, r, o, full, unknown=True)
                    violations.append((full, path, o))
                else:
                    undecided.append(full + f" ({o.get('reason', 'unknown')})")

    # known findings that were confirmed still present (witness class still failing)
    printed_known = set()
    for kf, full, o in known_hits:
        if kf["id"] not in printed_known:
            printed_known.add(kf["id"])
            print(f"KNOWN-FINDING: property={prop} {kf['id']}: {kf['description']} [{full}]")

    # native tier
    bounded_summary = []
    n_eval = 0
    n_distinct = 0
    if native is not None:
        for e in native["contracts"]:
            n_eval += e.get("accepted", 0)
            n_distinct += e.get("distinct", 0)
            bounded_summary.append({k: e.get(k) for k in ("target", "contract", "tried", "accepted", "distinct", "bounded_only", "skipped", "error", "wall_s")} | {"failures": len(e.get("failures", [])) + e.get("more_failures", 0)})
            if e.get("error"):
                errors.append(f"native {e['contract']}: {e['error'][:500]}")
            for kw_ in e.get("known_witnesses", []):
                kf = next((k for k in known if k["id"] == kw_["id"]), None)
                if kw_.get("error"):
                    errors.append(f"native {e['contract']}: witness {kw_['id']}: {kw_['error']}")
                elif kf is None:
                    errors.append(f"native {e['contract']}: witness {kw_['id']} is not listed in known_findings.json for {prop}")
                elif kw_["still_fails"] and kf["id"] not in printed_known:
                    printed_known.add(kf["id"])
                    print(f"KNOWN-FINDING: property={prop} {kf['id']}: {kf['description']} [{e['target']}: {', '.join(kw_['failed_clauses'])}]")
            for f in e.get("failures", []):
                kf = match_known_native(known, e["contract"], f)
                full = f"{prop}/{e['target']}/{f['clause']}@native"
                if kf is not None:
                    if kf["id"] not in printed_known:
                        printed_known.add(kf["id"])
                        print(f"KNOWN-FINDING: property={prop} {kf['id']}: {kf['description']} [{full}]")
                    continue
                path = write_replay_native(replay_dir, prop, e, f, full)
                violations.append((full, path, {"native": True}))
    elif native_err:
        errors.append(native_err)

    # replay symbolic counterexamples natively
    vio_lines = []
    # one VIOLATION line per failed clause; up to 3 counter-models of a clause are replayed
    # natively (a broken loop body can fail thousands of per-path obligations), the line names
    # the first one that reproduced
    by_clause = {}
    for full, path, o in violations:
        by_clause.setdefault(clause_of(full), []).append((full, path, o))
    for key, items in by_clause.items():
        chosen = None
        tried = 0
        for full, path, o in items:
            if o.get("native"):
                chosen = (path, "")
                break
            if o.get("verdict") == "sat" and o.get("model_args") is not None and tried < 3:
                tried += 1
                rc, out = run_replay(path, repo)
                append_replay_output(path, rc, out)
                if rc == 1:
                    chosen = (path, "")
                    break
        if chosen is None:
            chosen = (items[0][1], " no-failing-input-found")
        vio_lines.append(f"VIOLATION property={prop} replay={chosen[0]}{chosen[1]}")

    for ln in vio_lines:
        print(ln)
    for u in undecided:
        print(f"UNDECIDED: {u}")
    for e in errors:
        print(f"CHECKER-ERROR: {e}")

    n_scoped = sum(b["obligations"] for b in bounded_symbolic.values())
    if n_obl == 0 and n_scoped == 0 and not (native and any(b["accepted"] for b in bounded_summary)):
        errors.append("no obligations were generated")
        print("CHECKER-ERROR: no obligations were generated")

    # ------------------------------------------------------------------ evidence
    slowest.sort(reverse=True)
    assumptions = sorted(trusted | set(static_assumptions(prop, mine, results)))
    level = "proof" if n_obl > 0 else "other"
    if n_obl == 0:
        n_eval += n_scoped
        n_distinct += n_scoped
    cov = {
        "obligations": n_obl,
        "discharged": n_dis,
        "checker_cmd": f"python3-vt vc/run.py --property {prop} --tier {args.tier}",
        "trusted_base": assumptions,
        "functions_under_contract": functions,
        "by_backend": by_backend,
        "solver_s": round(solver_s, 3),
        "slowest": [{"obligation": n, "s": round(t, 3)} for t, n in slowest[:5]],
        "covers": covers,
        "bounded_symbolic": list(bounded_symbolic.values()),
        "bounded_symbolic_note": "finite-scope symbolic execution of the real loops (scope stated per entry): complete inside the scope, NOT an unbounded proof, not counted in obligations/discharged",
        "dependency_contracts_checked": list(dep_checked.values()),
        "dependency_note": "contracts of picosvg functions used modularly by nanoemoji's obligations, themselves checked against the installed picosvg source; reported separately from the obligations on /repo",
        "bounded": bounded_summary,
        "bounded_note": "bounded tier = the same contract clauses executed natively on the real functions over generated inputs; never counted in obligations/discharged",
        "evaluations": n_eval,
        "distinct_nontrivial": n_distinct,
        "rule": "bounded tier: inputs drawn from the contract's shapes (boundary-biased), kept when the precondition holds; distinct = distinct argument tuples",
        "known_findings": sorted(printed_known),
        "undecided": undecided,
        "samples": samples or [{"note": "no symbolic obligation for this property; see bounded"}],
        "explanation": "contract-based deductive verification: VCs generated from the AST of the real functions by vc/ (see DESIGN.md) and discharged by z3/cvc5; the bounded tier is a stand-in where stated",
    }
    ev = {
        "property_id": prop,
        "tier": args.tier,
        "seed": seed,
        "level": level,
        "coverage": cov,
        "assumptions": assumptions,
        "wall_s": round(time.time() - t_start, 2),
        "violations": len(vio_lines),
    }
    evp = args.evidence or os.path.join(HERE, "evidence", f"{prop}.json")
    os.makedirs(os.path.dirname(evp) or ".", exist_ok=True)
    json.dump(ev, open(evp, "w"), indent=1)

    if args.update_baseline:
        baseline.update(new_baseline)
        os.makedirs(os.path.dirname(baseline_path), exist_ok=True)
        json.dump(baseline, open(baseline_path, "w"), indent=1, sort_keys=True)

    if bounded_symbolic:
        print(f"{prop}: bounded-symbolic (finite scope, not counted as proved): " + ", ".join(f"{b['function']} {b['discharged']}/{b['obligations']}" for b in bounded_symbolic.values()))
    print(f"{prop}: {n_dis}/{n_obl} obligations discharged over {len(functions)} contracts ({covers['paths']} paths), bounded evaluations {n_eval}, {len(vio_lines)} violation(s), {len(undecided)} undecided, {len(errors)} error(s), {ev['wall_s']}s")
    if vio_lines:
        return 1
    if errors:
        return 3
    if undecided:
        return 2
    return 0


def merge_variants(results):
    out, by = [], {}
    for r in results:
        if not r.get("ok") or r.get("variant") is None:
            out.append(r)
            continue
        k = r["contract"]
        if k not in by:
            by[k] = r
            out.append(r)
        else:
            m = by[k]
            m["obligations"] += r["obligations"]
            for kk, v in r["covers"].items():
                m["covers"][kk] = m["covers"].get(kk, 0) + v
            m["used_contracts"] = sorted(set(m["used_contracts"]) | set(r["used_contracts"]))
            m["inlined"] = sorted(set(m["inlined"]) | set(r["inlined"]))
            m["wall_s"] = max(m["wall_s"], r["wall_s"])
    return out


def static_assumptions(prop, mine, results):
    no_native = sorted({c.target for c in mine if not c.assumed and not c.bounded_only and c.kind != "lemma" and not getattr(c, "native", True)})
    out = [
        "A-real: Python floats modelled as mathematical reals (no rounding, NaN, inf, -0.0)",
        "z3 4.x / cvc5 1.x soundness",
        "vc/ interpreter semantics of the Python subset (cross-checked against CPython by the bounded tier, which executes the same clauses natively"
        + ("; NOT cross-checked for contracts over ghost / element models, which have no native entry point: " + ", ".join(no_native) if no_native else "")
        + ")",
    ]
    for c in mine:
        if c.assumed:
            out.append(f"assumed contract of dependency: {c.target} ({c.note})" if c.note else f"assumed contract of dependency: {c.target}")
        for a_ in getattr(c, "assumes", ()) or ():
            out.append(f"{c.target}: {a_}")
    inl = set()
    for r in results:
        if r.get("ok"):
            for q in r.get("inlined", []):
                if not q.startswith("nanoemoji.") and not q.startswith("spec") and not q.startswith("c_"):
                    inl.add(q)
            for q in r.get("externals", []):
                out.append(f"external model: {q}")
    if inl:
        out.append("dependency source interpreted as installed (not assumed): " + ", ".join(sorted(inl)))
    return out


def write_replay(d, prop, r, o, full, unknown=False):
    os.makedirs(d, exist_ok=True)
    fn = re.sub(r"[^A-Za-z0-9_.@-]+", "_", f"{r['target']}__{o['name']}")[:150] + ".json"
    p = os.path.join(d, fn)
    rp = {
        "property": prop,
        "obligation": o["name"],
        "full_name": full,
        "kind": o["kind"],
        "function": r["target"],
        "contract": r["contract"],
        "file": r.get("file"),
        "source_sha256": r.get("source_sha256"),
        "solver": o.get("backend"),
        "verdict": o["verdict"],
        "solver_output": o.get("reason") or o["verdict"],
        "args": o.get("model_args"),
        "model_result": o.get("model_result"),
        "model_raised": o.get("model_raised"),
        "smt2": o.get("smt2"),
        "how_to_rerun": f"/venv/bin/python vc/native.py replay {p}",
    }
    if unknown:
        rp["note"] = "obligation was discharged on the baseline source of this function and is no longer discharged after the change; the solver gave no model"
    json.dump(rp, open(p, "w"), indent=1)
    return p


def write_replay_native(d, prop, e, f, full):
    os.makedirs(d, exist_ok=True)
    fn = re.sub(r"[^A-Za-z0-9_.@-]+", "_", f"{e['target']}__{f['clause']}__native")[:150] + ".json"
    p = os.path.join(d, fn)
    rp = {
        "property": prop,
        "obligation": f["clause"],
        "full_name": full,
        "kind": "bounded",
        "function": e["target"],
        "contract": e["contract"],
        "verdict": "failing input found by the bounded tier (native execution of the real function)",
        "args": f["args"],
        "args_repr": f["args_repr"],
        "native": {"outcome": f["outcome"], "detail": f["detail"], "reproduced": True},
        "how_to_rerun": f"/venv/bin/python vc/native.py replay {p}",
    }
    json.dump(rp, open(p, "w"), indent=1, default=repr)
    return p


def run_replay(path, repo):
    try:
        r = subprocess.run([VENV_PY, os.path.join(HERE, "vc", "native.py"), "replay", path, "--repo", repo], capture_output=True, text=True, timeout=300)
        return r.returncode, (r.stdout + r.stderr)[-4000:]
    except Exception as e:  # noqa: BLE001
        return 3, repr(e)


def append_replay_output(path, rc, out):
    try:
        rp = json.load(open(path))
        rp["native"] = {"exit": rc, "reproduced": rc == 1, "output": out}
        json.dump(rp, open(path, "w"), indent=1)
    except Exception:
        pass


def match_known_native(known, cname, f):
    for k in known:
        if k.get("contract") == cname and f["clause"].startswith(k.get("clause", "")):
            # a generated input that fails is attributed to a recorded finding only if it lies in
            # that finding's witness class (given as a pattern over the arguments); the
            # generators keep clear of the recorded classes, so without a pattern every failing
            # generated input is a NEW violation -- the recorded witnesses themselves are
            # re-executed separately (known_witnesses) and print KNOWN-FINDING
            w = k.get("native_witness")
            if w is not None and re.search(w, f.get("args_repr", "")):
                return k
    return None


if __name__ == "__main__":
    sys.exit(main())
