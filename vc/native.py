"""Native half: replay of counterexamples and the bounded tier.

Runs under /venv/bin/python (nanoemoji and its dependencies importable).  Contract modules
are imported as ordinary Python; the same lambdas the prover interprets symbolically are
called here on real objects.

  native.py bounded --property C16 --tier quick --seed 0 --out FILE [--repo DIR]
  native.py replay FILE [--repo DIR]
"""
import argparse
import glob
import importlib
import inspect
import json
import os
import random
import sys
import time
import traceback

HERE = os.path.dirname(os.path.dirname(os.path.abspath(__file__)))


def setup_paths(repo):
    sys.path.insert(0, os.path.join(HERE, "contracts"))
    if repo and os.path.abspath(repo) != "/repo":
        sys.path.insert(0, os.path.join(repo, "src"))
        os.environ["PYTHONPATH"] = os.path.join(repo, "src") + os.pathsep + os.environ.get("PYTHONPATH", "")
    else:
        sys.path.insert(0, "/repo/src")


def load_all():
    import vlib

    try:  # nanoemoji's modules read absl flags at call time
        from absl import flags

        if not flags.FLAGS.is_parsed():
            flags.FLAGS(["verif"])
    except Exception:  # noqa: BLE001
        pass

    mods = sorted(os.path.basename(p)[:-3] for p in glob.glob(os.path.join(HERE, "contracts", "c_*.py")))
    for m in mods:
        importlib.import_module(m)
    out = []
    for target, cls, kw, kind in vlib.REGISTRY:
        out.append(NContract(target, cls, kw, kind))
    return out


class NContract:
    def __init__(self, target, cls, kw, kind):
        self.target = target
        self.cls = cls
        self.name = cls.__name__
        self.module = cls.__module__
        self.props = kw.get("props", [])
        self.kind = kind
        g = lambda n, d=None: cls.__dict__.get(n, d)
        self.args = g("args", {})
        req = g("requires", [])
        self.requires = list(req) if isinstance(req, (list, tuple)) else [req]
        self.ensures = g("ensures", {})
        self.raises = g("raises", {})
        self.may_raise = tuple(g("may_raise", ()))
        self.raises_if = g("raises_if", {})
        self.free = g("free", {})
        self.statement = g("statement")
        self.native_call = g("native_call")
        self.native_skip = set(g("native_skip", ()))
        self.gen = g("gen")
        self.bounded_only = g("bounded_only", False)
        self.native_requires = g("native_requires")
        self.n_quick = g("n_quick", 300)
        self.n_thorough = g("n_thorough", 3000)
        self.native = g("native", True)
        self.native_ensures = g("native_ensures", {})
        self.known_witnesses = g("known_witnesses", {})


def resolve(target):
    parts = target.split(".")
    for k in range(len(parts), 0, -1):
        try:
            m = importlib.import_module(".".join(parts[:k]))
        except ImportError:
            continue
        obj = m
        for r in parts[k:]:
            if r == "<locals>":
                return None
            obj = getattr(obj, r)
        return obj
    raise ImportError(target)


def needs_calls(fn):
    return callable(fn) and "calls" in inspect.signature(fn).parameters


def call_clause(fn, argv):
    if not callable(fn):
        return fn
    kw = {}
    for n, prm in inspect.signature(fn).parameters.items():
        if n in argv:
            kw[n] = argv[n]
        elif prm.default is inspect.Parameter.empty:
            raise KeyError(n)
    return fn(**kw)


def call_target(c, fn, argv):
    if c.native_call is not None:
        return call_clause(c.native_call, argv)
    sig = inspect.signature(fn)
    pos, kw = [], {}
    has_var = any(p.kind == p.VAR_POSITIONAL for p in sig.parameters.values())
    for name, p in sig.parameters.items():
        if p.kind == p.VAR_POSITIONAL:
            pos.extend(argv.get(name, ()))
        elif name in argv:
            if has_var:
                pos.append(argv[name])
            else:
                kw[name] = argv[name]
    return fn(*pos, **kw)


def exc_matches(exc, name):
    return any(k.__name__ == name for k in type(exc).__mro__)


def check_one(c, fn, argv):
    """run the real function on argv and evaluate every clause.
    returns list of (clause, detail) failures and the outcome description"""
    fails = []
    try:
        result = call_target(c, fn, argv)
        raised = None
    except Exception as e:  # noqa: BLE001 - we classify it below
        result = None
        raised = e
    if raised is None:
        av = dict(argv)
        av["result"] = result
        for nm, cl in list(c.ensures.items()) + list(c.native_ensures.items()):
            if nm in c.native_skip or (callable(cl) and "calls" in inspect.signature(cl).parameters):
                continue
            try:
                ok = call_clause(cl, av)
            except Exception as e:  # noqa: BLE001
                fails.append((f"post:{nm}", f"clause raised {e!r}"))
                continue
            if not isinstance(ok, bool) and type(ok).__name__ not in ("bool_", "bool"):
                fails.append((f"post:{nm}", f"clause is not boolean: {ok!r}"[:200]))
            elif not ok:
                fails.append((f"post:{nm}", "false"))
        for exc, cond in c.raises.items():
            if f"raises:{exc}" in c.native_skip or needs_calls(cond):
                continue
            if call_clause(cond, argv):
                fails.append((f"raises:{exc}-if", "returned normally although the raise condition holds"))
        for exc, cond in c.raises_if.items():
            if f"raises:{exc}" in c.native_skip or needs_calls(cond):
                continue
            if call_clause(cond, argv):
                fails.append((f"must-raise:{exc}-if", "returned normally although the raise condition holds"))
        outcome = {"returned": short(result)}
    else:
        matched = [e for e in c.raises if exc_matches(raised, e)]
        if matched:
            if needs_calls(c.raises[matched[0]]):
                pass
            elif not call_clause(c.raises[matched[0]], argv) and f"raises:{matched[0]}" not in c.native_skip:
                fails.append((f"raises:{matched[0]}-only-if", f"raised {raised!r} although the condition is false"))
        elif any(exc_matches(raised, e) for e in c.may_raise) or any(exc_matches(raised, e) for e in c.raises_if):
            pass
        else:
            fails.append((f"no-unexpected:{type(raised).__name__}", "".join(traceback.format_exception_only(type(raised), raised)).strip()))
        outcome = {"raised": repr(raised)}
    return fails, outcome


def short(v, n=300):
    s = repr(v)
    return s if len(s) <= n else s[:n] + "..."


def to_jsonable(v):
    import dataclasses
    import types

    if isinstance(v, (bool, int, str)) or v is None:
        return v
    if isinstance(v, float):
        return v
    if isinstance(v, tuple) and hasattr(v, "_fields"):
        return {"__rec__": type(v).__module__ + "." + type(v).__name__, "fields": {f: to_jsonable(getattr(v, f)) for f in v._fields}}
    if dataclasses.is_dataclass(v) and not isinstance(v, type):
        return {"__rec__": type(v).__module__ + "." + type(v).__name__, "fields": {f.name: to_jsonable(getattr(v, f.name)) for f in dataclasses.fields(v)}}
    if isinstance(v, tuple):
        return {"__tuple__": [to_jsonable(x) for x in v]}
    if isinstance(v, list):
        return [to_jsonable(x) for x in v]
    if isinstance(v, dict):
        return {"__dict__": [[to_jsonable(k), to_jsonable(x)] for k, x in v.items()]}
    if isinstance(v, types.SimpleNamespace):
        return {"__obj__": {k: to_jsonable(x) for k, x in v.__dict__.items()}}
    import enum

    if isinstance(v, enum.Enum):
        return {"__enum__": type(v).__module__ + "." + type(v).__name__, "name": v.name}
    import vlib

    if isinstance(v, vlib.OpaqueToken):
        return {"__opaque__": v.tag, "id": v.ident}
    try:
        import base64
        import pickle

        return {"__pickle__": base64.b64encode(pickle.dumps(v)).decode(), "repr": short(v, 200)}
    except Exception:  # noqa: BLE001
        return {"__repr__": repr(v)}


def bounded(args):
    import vlib

    contracts = [c for c in load_all() if args.property in c.props and c.kind == "contract" and c.native]
    if args.only:
        contracts = [c for c in contracts if args.only in c.name or args.only in c.target]
    report = {"property": args.property, "tier": args.tier, "seed": args.seed, "contracts": []}
    for c in contracts:
        t0 = time.time()
        entry = {"target": c.target, "contract": f"{c.module}.{c.name}", "tried": 0, "accepted": 0, "failures": [], "bounded_only": bool(c.bounded_only)}
        try:
            fn = resolve(c.target) if c.native_call is None else None
        except Exception as e:  # noqa: BLE001
            entry["error"] = f"cannot resolve target: {e!r}"
            report["contracts"].append(entry)
            continue
        if fn is None and c.native_call is None:
            entry["skipped"] = "nested function: no native entry point (proved tier only)"
            report["contracts"].append(entry)
            continue
        n = c.n_quick if args.tier == "quick" else c.n_thorough
        rng = random.Random(f"{args.seed}:{c.target}:{c.name}")
        samples = []
        distinct = set()
        for i in range(n * 20):
            if entry["accepted"] >= n:
                break
            entry["tried"] += 1
            try:
                if c.gen is not None:
                    # a generator may take the case index as well (stratified scenarios)
                    g_ = getattr(c.gen, "__func__", c.gen)
                    argv = c.gen(rng, entry["accepted"]) if g_.__code__.co_argcount >= 2 else c.gen(rng)
                else:
                    argv = {k: vlib.generate(sh, rng) for k, sh in c.args.items()}
                    argv.update({k: vlib.generate(sh, rng) for k, sh in c.free.items()})
                if not all(call_clause(r, argv) for r in c.requires):
                    continue
                if c.native_requires is not None and not call_clause(c.native_requires, argv):
                    continue
            except Exception as e:  # noqa: BLE001
                entry["error"] = f"generator/requires raised: {e!r}\n{traceback.format_exc()}"
                break
            entry["accepted"] += 1
            fails, outcome = check_one(c, fn, argv)
            key = short(argv, 2000)
            distinct.add(key)
            if len(samples) < 2:
                samples.append({"args": short(argv, 400), "outcome": outcome})
            for clause, detail in fails:
                if len(entry["failures"]) < 5:
                    entry["failures"].append({"clause": clause, "detail": detail, "args": {k_: to_jsonable(v_) for k_, v_ in argv.items()}, "args_repr": short(argv, 1000), "outcome": outcome})
                else:
                    entry.setdefault("more_failures", 0)
                    entry["more_failures"] += 1
        # recorded witnesses of known findings: executed on every run, reported separately
        entry["known_witnesses"] = []
        for kid, wfn in c.known_witnesses.items():
            try:
                argv = wfn()
                fails, outcome = check_one(c, fn, argv)
            except Exception as e:  # noqa: BLE001
                entry["known_witnesses"].append({"id": kid, "error": repr(e)})
                continue
            entry["known_witnesses"].append({"id": kid, "still_fails": bool(fails), "failed_clauses": [f_[0] for f_ in fails], "args_repr": short(argv, 600), "outcome": outcome})
        entry["distinct"] = len(distinct)
        entry["samples"] = samples
        entry["wall_s"] = round(time.time() - t0, 3)
        report["contracts"].append(entry)
    with open(args.out, "w") as f:
        json.dump(report, f, indent=1, default=repr)
    return 0


def replay(args):
    import vlib

    rp = json.load(open(args.file))
    cs = [c for c in load_all() if f"{c.module}.{c.name}" == rp["contract"]]
    if not cs:
        print(f"replay: contract {rp['contract']} not found")
        return 3
    c = cs[0]
    if "args" not in rp or rp["args"] is None:
        print(f"replay: obligation {rp['obligation']} has no input model (no-failing-input-found); solver output is in the file")
        return 1
    argv = {k: vlib.from_json(v) for k, v in rp["args"].items() if not k.startswith("free.")}
    fn = resolve(c.target) if c.native_call is None else None
    if fn is None and c.native_call is None:
        print("replay: nested function has no native entry point")
        return 2
    try:
        if not all(call_clause(r, argv) for r in c.requires):
            print("replay: rebuilt input does not satisfy the precondition natively (rounding of an exact real?)")
            return 2
    except Exception as e:  # noqa: BLE001
        print(f"replay: requires raised {e!r}")
        return 2
    fails, outcome = check_one(c, fn, argv)
    want = rp["obligation"].split("@")[0]
    print(f"replay {rp['obligation']} on {c.target}")
    print(f"  args    = {short(argv, 1500)}")
    print(f"  outcome = {outcome}")
    hit = [f for f in fails if f[0] == want or want.startswith(f[0])]
    other = [f for f in fails if f not in hit]
    for f in hit:
        print(f"  FAILS {f[0]}: {f[1]}")
    for f in other:
        print(f"  also fails {f[0]}: {f[1]}")
    out = {"reproduced": bool(hit), "failed_clauses": [f[0] for f in fails], "outcome": outcome}
    # a model whose strings only carry uninterpreted values (ufn) cannot be rebuilt as real
    # text: the native call then dies on the placeholder, which reproduces nothing
    if want.startswith("post:") and isinstance(outcome, dict) and outcome.get("raised") and str(rp.get("model_raised")) in ("None", "") and "smt2" in rp and "declare-fun" in rp["smt2"] and any(isinstance(v, str) and v.startswith("!") for v in _strings(rp["args"])):
        print("  note: the model's strings stand for uninterpreted values and are not real text; the native run raised on them -- not a reproduction")
        out["reproduced"] = False
        if args.json:
            json.dump(out, open(args.json, "w"), default=repr)
        return 2
    if args.json:
        json.dump(out, open(args.json, "w"), default=repr)
    return 1 if fails else 0


def _strings(j):
    if isinstance(j, str):
        yield j
    elif isinstance(j, dict):
        for v in j.values():
            yield from _strings(v)
    elif isinstance(j, (list, tuple)):
        for v in j:
            yield from _strings(v)


def main():
    ap = argparse.ArgumentParser()
    sub = ap.add_subparsers(dest="cmd")
    b = sub.add_parser("bounded")
    b.add_argument("--property", required=True)
    b.add_argument("--tier", default="quick")
    b.add_argument("--seed", type=int, default=0)
    b.add_argument("--out", required=True)
    b.add_argument("--repo", default=os.environ.get("VERIF_REPO", "/repo"))
    b.add_argument("--only", default=None)
    r = sub.add_parser("replay")
    r.add_argument("file")
    r.add_argument("--repo", default=os.environ.get("VERIF_REPO", "/repo"))
    r.add_argument("--json", default=None)
    args = ap.parse_args()
    setup_paths(args.repo)
    try:
        if args.cmd == "bounded":
            sys.exit(bounded(args))
        if args.cmd == "replay":
            sys.exit(replay(args))
    except SystemExit:
        raise
    except BaseException:  # noqa: BLE001 - a crash of the harness is never a verdict
        traceback.print_exc()
        sys.exit(3)
    ap.print_help()
    sys.exit(3)


if __name__ == "__main__":
    main()
