"""Sound linear abstraction of (non)linear mixed Int/Real formulas.

Every arithmetic term is expanded into a sum of monomials over atoms; every monomial of
degree >= 2 (and every reciprocal 1/p of a non-constant polynomial p) becomes a fresh real
variable.  Identical monomials get the same variable whatever the syntactic form they
came in, so facts such as  (asc - desc) * p / u  =  asc*p/u - desc*p/u  hold by
construction, while the solver only ever sees linear arithmetic.  Any model of the original
formulas extends to a model of the abstraction (assign each monomial its value), hence

        abstraction unsat   ==>   original unsat.

The converse does not hold: `sat` here means nothing and is never reported.
"""
from fractions import Fraction
import z3


class Lin:
    def __init__(self):
        self.atoms = {}  # key -> z3 var (atom)
        self.mono = {}  # tuple of atom keys -> z3 real var
        self.axioms = []
        self.n = 0
        self.cache = {}

    def fresh(self, prefix, sort):
        self.n += 1
        return z3.Const(f"{prefix}%{self.n}", sort)

    # ---- polynomials: dict { tuple(sorted atom keys) : Fraction }

    def atom_poly(self, key, var):
        if key not in self.atoms:
            self.atoms[key] = var
        return {(key,): Fraction(1)}

    def padd(self, a, b, sb=1):
        r = dict(a)
        for m, c in b.items():
            r[m] = r.get(m, 0) + sb * c
            if r[m] == 0:
                del r[m]
        return r

    def pmul(self, a, b):
        r = {}
        for m1, c1 in a.items():
            for m2, c2 in b.items():
                m = tuple(sorted(m1 + m2))
                r[m] = r.get(m, 0) + c1 * c2
                if r[m] == 0:
                    del r[m]
        if len(r) > 4000:
            raise OverflowError("polynomial too large")
        return r

    def pkey(self, p):
        return "P[" + ";".join(f"{'*'.join(m)}:{c}" for m, c in sorted(p.items())) + "]"

    def const_of(self, p):
        if not p:
            return Fraction(0)
        if list(p.keys()) == [()]:
            return p[()]
        return None

    def poly(self, t):
        k = t.get_id()
        if k in self.cache:
            return self.cache[k]
        r = self._poly(t)
        self.cache[k] = r
        return r

    def _poly(self, t):
        if z3.is_int_value(t):
            return {(): Fraction(t.as_long())} if t.as_long() != 0 else {}
        if z3.is_rational_value(t):
            f = Fraction(t.numerator_as_long(), t.denominator_as_long())
            return {(): f} if f != 0 else {}
        if z3.is_algebraic_value(t):
            return self.opaque(t)
        if not z3.is_app(t):
            return self.opaque(t)
        d = t.decl().kind()
        ch = t.children()
        if d == z3.Z3_OP_ADD:
            r = {}
            for c in ch:
                r = self.padd(r, self.poly(c))
            return r
        if d == z3.Z3_OP_SUB:
            r = self.poly(ch[0])
            for c in ch[1:]:
                r = self.padd(r, self.poly(c), -1)
            return r
        if d == z3.Z3_OP_UMINUS:
            return self.padd({}, self.poly(ch[0]), -1)
        if d == z3.Z3_OP_MUL:
            r = {(): Fraction(1)}
            for c in ch:
                r = self.pmul(r, self.poly(c))
            return r
        if d == z3.Z3_OP_DIV:
            a, b = self.poly(ch[0]), self.poly(ch[1])
            cb = self.const_of(b)
            if cb is not None and cb != 0:
                return {m: c / cb for m, c in a.items()}
            return self.pmul(a, self.inverse(b))
        if d == z3.Z3_OP_TO_REAL:
            return self.poly(ch[0])
        if d == z3.Z3_OP_TO_INT:
            inner = self.poly(ch[0])
            key = "FLOOR(" + self.pkey(inner) + ")"
            if key not in self.atoms:
                v = self.fresh("floor", z3.IntSort())
                self.atoms[key] = v
                x = self.expr(inner)
                self.axioms.append(z3.And(z3.ToReal(v) <= x, x < z3.ToReal(v) + 1))
            return {(key,): Fraction(1)}
        if d == z3.Z3_OP_ITE:
            c = self.formula(ch[0])
            a, b = self.poly(ch[1]), self.poly(ch[2])
            key = f"ITE({c.sexpr()},{self.pkey(a)},{self.pkey(b)})"
            if key not in self.atoms:
                srt = z3.IntSort() if t.sort() == z3.IntSort() and self.is_intpoly(a) and self.is_intpoly(b) else z3.RealSort()
                v = self.fresh("ite", srt)
                self.atoms[key] = v
                vr = z3.ToReal(v) if srt == z3.IntSort() else v
                self.axioms.append(z3.If(c, vr == self.expr(a), vr == self.expr(b)))
            return {(key,): Fraction(1)}
        if d in (z3.Z3_OP_IDIV, z3.Z3_OP_MOD, z3.Z3_OP_REM):
            a, b = self.poly(ch[0]), self.poly(ch[1])
            cb = self.const_of(b)
            key = f"{t.decl().name()}({self.pkey(a)},{self.pkey(b)})"
            if key not in self.atoms:
                v = self.fresh("idiv", z3.IntSort())
                self.atoms[key] = v
                if cb is not None and cb > 0 and cb.denominator == 1 and d in (z3.Z3_OP_IDIV, z3.Z3_OP_MOD):
                    x = self.expr(a)
                    n = int(cb)
                    if d == z3.Z3_OP_IDIV:
                        self.axioms.append(z3.And(z3.ToReal(v) * n <= x, x < z3.ToReal(v) * n + n))
                    else:
                        q = self.fresh("idivq", z3.IntSort())
                        self.axioms.append(z3.And(z3.ToReal(q) * n + z3.ToReal(v) == x, v >= 0, v < n))
            return {(key,): Fraction(1)}
        if d == z3.Z3_OP_UNINTERPRETED:
            if not ch:
                key = "V:" + t.decl().name()
                if key not in self.atoms:
                    self.atoms[key] = t
                return {(key,): Fraction(1)}
            args = [self.term(c) for c in ch]
            nt = t.decl()(*args)
            key = "F:" + nt.sexpr()
            if key not in self.atoms:
                self.atoms[key] = nt
            return {(key,): Fraction(1)}
        if d == z3.Z3_OP_POWER:
            b = self.poly(ch[1])
            cb = self.const_of(b)
            if cb is not None and cb.denominator == 1 and 0 <= cb <= 6:
                r = {(): Fraction(1)}
                base = self.poly(ch[0])
                for _ in range(int(cb)):
                    r = self.pmul(r, base)
                return r
        return self.opaque(t)

    def is_intpoly(self, p):
        for m, c in p.items():
            if c.denominator != 1:
                return False
            if len(m) > 1:
                return False
            if len(m) == 1 and self.atoms[m[0]].sort() != z3.IntSort():
                return False
        return True

    def opaque(self, t):
        key = "O:" + t.sexpr()
        if key not in self.atoms:
            self.atoms[key] = self.fresh("opq", t.sort())
        return {(key,): Fraction(1)}

    def inverse(self, b):
        key = "INV(" + self.pkey(b) + ")"
        if key not in self.atoms:
            v = self.fresh("inv", z3.RealSort())
            self.atoms[key] = v
            # b != 0  =>  b * inv(b) = 1     (as a linear fact over monomial variables)
            prod = self.pmul(b, {(key,): Fraction(1)})
            be = self.expr(b)
            self.axioms.append(z3.Implies(be != 0, self.expr(prod) == 1))
            # sign facts
            self.axioms.append(z3.Implies(be > 0, v > 0))
            self.axioms.append(z3.Implies(be < 0, v < 0))
        return {(key,): Fraction(1)}

    def mono_var(self, m):
        if len(m) == 1:
            v = self.atoms[m[0]]
            return z3.ToReal(v) if v.sort() == z3.IntSort() else v
        if m not in self.mono:
            v = self.fresh("mono", z3.RealSort())
            self.mono[m] = v
            # squares are non-negative; products of sign-known factors: cheap, useful facts
            if len(m) == 2 and m[0] == m[1]:
                self.axioms.append(v >= 0)
        return self.mono[m]

    def expr(self, p):
        """linear z3 real expression of a polynomial"""
        terms = []
        for m, c in sorted(p.items()):
            cv = z3.RealVal(str(c))
            if m == ():
                terms.append(cv)
            else:
                mv = self.mono_var(m)
                terms.append(mv if c == 1 else cv * mv)
        if not terms:
            return z3.RealVal(0)
        return z3.Sum(terms) if len(terms) > 1 else terms[0]

    def term(self, t):
        """linearized version of a non-boolean term"""
        if t.sort() == z3.BoolSort():
            return self.formula(t)
        if t.sort() in (z3.IntSort(), z3.RealSort()):
            p = self.poly(t)
            e = self.expr(p)
            if t.sort() == z3.IntSort():
                if self.is_intpoly(p):
                    ts = []
                    for m, c in sorted(p.items()):
                        ts.append(z3.IntVal(int(c)) if m == () else int(c) * self.atoms[m[0]])
                    return z3.Sum(ts) if len(ts) > 1 else (ts[0] if ts else z3.IntVal(0))
                return z3.ToInt(e)
            return e
        return t

    def formula(self, f):
        if z3.is_quantifier(f):
            raise NotImplementedError("quantifier")
        if not z3.is_app(f):
            return f
        d = f.decl().kind()
        ch = f.children()
        if d in (z3.Z3_OP_AND, z3.Z3_OP_OR, z3.Z3_OP_NOT, z3.Z3_OP_IMPLIES, z3.Z3_OP_XOR):
            args = [self.formula(c) for c in ch]
            return {z3.Z3_OP_AND: z3.And, z3.Z3_OP_OR: z3.Or, z3.Z3_OP_NOT: z3.Not, z3.Z3_OP_IMPLIES: z3.Implies, z3.Z3_OP_XOR: z3.Xor}[d](*args)
        if d == z3.Z3_OP_ITE and f.sort() == z3.BoolSort():
            return z3.If(self.formula(ch[0]), self.formula(ch[1]), self.formula(ch[2]))
        if d in (z3.Z3_OP_LE, z3.Z3_OP_LT, z3.Z3_OP_GE, z3.Z3_OP_GT):
            e = self.expr(self.padd(self.poly(ch[0]), self.poly(ch[1]), -1))
            z = z3.RealVal(0)
            return {z3.Z3_OP_LE: e <= z, z3.Z3_OP_LT: e < z, z3.Z3_OP_GE: e >= z, z3.Z3_OP_GT: e > z}[d]
        if d in (z3.Z3_OP_EQ, z3.Z3_OP_DISTINCT):
            if ch[0].sort() in (z3.IntSort(), z3.RealSort()):
                if d == z3.Z3_OP_EQ:
                    return self.expr(self.padd(self.poly(ch[0]), self.poly(ch[1]), -1)) == 0
                es = [self.expr(self.poly(c)) for c in ch]
                return z3.Distinct(*es)
            if ch[0].sort() == z3.BoolSort():
                args = [self.formula(c) for c in ch]
                return args[0] == args[1] if d == z3.Z3_OP_EQ else z3.Distinct(*args)
            args = [self.term(c) for c in ch]
            return args[0] == args[1] if d == z3.Z3_OP_EQ else z3.Distinct(*args)
        if d == z3.Z3_OP_IS_INT:
            p = self.poly(ch[0])
            e = self.expr(p)
            v = self.fresh("isint", z3.IntSort())
            b = self.fresh("isintb", z3.BoolSort())
            self.axioms.append(z3.Implies(b, z3.ToReal(v) == e))
            if self.is_intpoly(p):
                return z3.BoolVal(True)
            return b if False else z3.ToReal(z3.ToInt(e)) == e
        if d == z3.Z3_OP_UNINTERPRETED:
            if not ch:
                return f
            return f.decl()(*[self.term(c) for c in ch])
        if d in (z3.Z3_OP_TRUE, z3.Z3_OP_FALSE):
            return f
        # anything else boolean: opaque but stable
        key = "B:" + f.sexpr()
        if key not in self.atoms:
            self.atoms[key] = self.fresh("bopq", z3.BoolSort())
        return self.atoms[key]


def check_linearized(pc, goal, timeout_s=10):
    """returns 'unsat' if the linear abstraction of  pc and not goal  is unsat, else 'unknown'"""
    L = Lin()
    try:
        fs = [L.formula(z3.simplify(t)) for t in pc]
        fs.append(z3.Not(L.formula(z3.simplify(goal))))
    except (NotImplementedError, OverflowError, z3.Z3Exception, KeyError):
        return "unknown"
    s = z3.Solver()
    s.set("timeout", int(timeout_s * 1000))
    for f in fs:
        s.add(f)
    for a in L.axioms:
        s.add(a)
    r = s.check()
    return "unsat" if r == z3.unsat else "unknown"
