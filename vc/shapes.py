"""Shapes: how a contract describes the symbolic inputs (and modular results) of a function.

The same constructors exist natively in contracts/vlib.py where they drive random input
generation for the bounded tier and the rebuilding of counterexamples.
"""
import ast
from fractions import Fraction
import z3
from .values import *
from . import interp as I


class Shape:
    def __init__(self, kind, *a, **k):
        self.kind = kind
        self.a = a
        self.k = k

    def __repr__(self):
        return f"Shape({self.kind},{self.a},{self.k})"


def install(B):
    def reg(name, f):
        B._B[name] = I.PyFn(name, f)
        B._EXT["vlib." + name] = f

    for n in ("Int", "Real", "Bool", "Str"):
        B._B[n] = Shape(n.lower())
    B._B["Bytes"] = Shape("bytes")
    reg("Record", lambda ip, a, k: Shape("record", a[0], **k))
    reg("Opaque", lambda ip, a, k: Shape("opaque", a[0]))
    reg("Optional_", lambda ip, a, k: Shape("opt", a[0]))
    reg("TupleOf", lambda ip, a, k: Shape("tuple", *a))
    reg("ListOf", lambda ip, a, k: Shape("list", *a))
    reg("SeqOf", lambda ip, a, k: Shape("seq", a[0], **k))
    reg("Const", lambda ip, a, k: Shape("const", a[0]))
    reg("Obj", lambda ip, a, k: Shape("obj", *a, **k))
    reg("OneOf", lambda ip, a, k: Shape("oneof", *a))
    reg("IntRange", lambda ip, a, k: Shape("intrange", a[0], a[1]))
    reg("Enum", lambda ip, a, k: Shape("enum", a[0]))
    reg("ClassOf", lambda ip, a, k: Shape("class", a[0]))
    reg("EnumConst", lambda ip, a, k: Shape("enumconst", a[0], a[1]))
    reg("Elem", lambda ip, a, k: Shape("elem", a[0], **k))
    reg("Instance", lambda ip, a, k: Shape("instance", a[0], **k))
    reg("AssocOf", lambda ip, a, k: Shape("assoc", *a))
    reg("MapOf", lambda ip, a, k: Shape("map", a[0], a[1]))
    reg("SetOf", lambda ip, a, k: Shape("pset", a[0]))
    reg("contract", lambda ip, a, k: I.PyFn("contract-deco", lambda ip2, a2, k2: a2[0]))
    reg("lemma", lambda ip, a, k: I.PyFn("lemma-deco", lambda ip2, a2, k2: a2[0]))


_SORTS = {}


def usort(tag):
    if tag not in _SORTS:
        _SORTS[tag] = z3.DeclareSort("U_" + tag.replace(":", "_"))
    return _SORTS[tag]


def _z3sort(s):
    return {"int": z3.IntSort(), "real": z3.RealSort(), "bool": z3.BoolSort(), "str": z3.StringSort()}[s]


def resolve_class(ip, qual):
    mod, _, cls = qual.rpartition(".")
    m = ip.world.import_module(mod, ip)
    if not isinstance(m, I.ModuleV):
        raise EngineError(f"class {qual}: module is not interpreted")
    c = m.get(cls, ip)
    if not isinstance(c, I.ClassV):
        raise EngineError(f"{qual} is not a class")
    return c


def ann_shape(ip, cls, ann):
    """shape from a type annotation in the class's module"""
    s = ast.unparse(ann).replace('"', "").replace("'", "")
    return _ann_str(ip, cls, s)


def _ann_str(ip, cls, s):
    s = s.strip()
    if s in ("float",):
        return Shape("real")
    if s == "int":
        return Shape("int")
    if s == "bool":
        return Shape("bool")
    if s == "str":
        return Shape("str")
    if s.startswith("Optional[") and s.endswith("]"):
        return Shape("opt", _ann_str(ip, cls, s[9:-1]))
    if s.startswith("Tuple[") and s.endswith("]"):
        inner = _split_top(s[6:-1])
        if inner and inner[-1].strip() == "...":
            raise EngineError(f"field annotation {s}: variable-length tuple needs an explicit shape")
        return Shape("tuple", *[_ann_str(ip, cls, x) for x in inner])
    if s == "Paint":
        return Shape("opaque", "Paint")
    # a class name visible from the class's module
    try:
        c = cls.env.lookup(s, ip)
    except PyRaise:
        c = None
    if isinstance(c, I.ClassV):
        if c.kind in ("namedtuple", "dataclass"):
            return Shape("record", c.qualname)
        if c.kind == "enum":
            return Shape("enum", c.qualname)
    raise EngineError(f"no shape for annotation {s!r} of {cls.qualname}; give an explicit shape")


def _split_top(s):
    out, depth, cur = [], 0, ""
    for ch in s:
        if ch == "[":
            depth += 1
        if ch == "]":
            depth -= 1
        if ch == "," and depth == 0:
            out.append(cur)
            cur = ""
        else:
            cur += ch
    if cur.strip():
        out.append(cur)
    return out


def _has_shape(v):
    if isinstance(v, Shape):
        return True
    if isinstance(v, Rec):
        return any(_has_shape(x) for x in v.f.values())
    if isinstance(v, (tuple, list)):
        return any(_has_shape(x) for x in v)
    if isinstance(v, dict):
        return any(_has_shape(x) for x in v.values())
    return False


class Maker:
    """Builds symbolic values from shapes; remembers side constraints."""

    def __init__(self, ip):
        self.ip = ip
        self.side = []

    def const(self, name, sort, idx):
        if idx is None:
            return z3.Const(name, _z3sort(sort) if isinstance(sort, str) else sort)
        f = z3.Function(name, *([z3.IntSort()] * len(idx)), _z3sort(sort) if isinstance(sort, str) else sort)
        return f(*idx)

    def make(self, sh, name, idx=None):
        ip = self.ip
        if not isinstance(sh, Shape):
            # a value template: instantiate the shapes found inside records / tuples, keep
            # everything else as it is
            if isinstance(sh, Rec):
                if not _has_shape(sh):
                    return sh
                return Rec(sh.cls, {k: self.make(v, f"{name}.{k}", idx) for k, v in sh.f.items()}, sh.mutable)
            if isinstance(sh, tuple):
                return tuple(self.make(v, f"{name}.{i}", idx) for i, v in enumerate(sh))
            if isinstance(sh, list):
                return [self.make(v, f"{name}.{i}", idx) for i, v in enumerate(sh)]
            if isinstance(sh, dict):
                return {k: self.make(v, f"{name}[{k}]", idx) for k, v in sh.items()}
            if isinstance(sh, I.NS):
                return I.NS(**{k: self.make(v, f"{name}.{k}", idx) for k, v in sh.__dict__.items()})
            return sh
        k = sh.kind
        if k in ("int", "real", "bool", "str"):
            return Sym(self.const(name, k, idx), k)
        if k == "intrange":
            v = self.const(name, "int", idx)
            self._side(z3.And(v >= sh.a[0], v <= sh.a[1]), idx)
            return Sym(v, "int")
        if k == "map":
            ks = sh.a[0].kind
            vsh = sh.a[1]
            comps = list(vsh.a) if vsh.kind == "tuple" else [vsh]
            pres = z3.Const(name + ".has", z3.ArraySort(_z3sort(ks), z3.BoolSort()))
            arrs = [(z3.Const(f"{name}.v{i}", z3.ArraySort(_z3sort(ks), _z3sort(c.kind))), c.kind) for i, c in enumerate(comps)]
            return MapV(ks, pres, arrs, vsh.kind == "tuple")
        if k == "pset":
            ks = sh.a[0].kind
            return PredSetV(ks, z3.Const(name + ".in", z3.ArraySort(_z3sort(ks), z3.BoolSort())))
        if k == "bytes":
            v = self.const(name + ".nbytes", "int", idx)
            self.side.append(v >= 0) if idx is None else None
            return SizedV(v if idx is not None else v)
        if k == "const":
            c = sh.a[0]
            # mutable constants must not be shared between paths / calls
            if isinstance(c, dict) and not c:
                return {}
            if isinstance(c, list) and not c:
                return []
            return c
        if k == "class":
            return resolve_class(ip, sh.a[0])
        if k == "enumconst":
            cls = resolve_class(ip, sh.a[0])
            m = cls.lookup(sh.a[1])
            if m is None:
                raise EngineError(f"enum {sh.a[0]} has no member {sh.a[1]}")
            return m
        if k == "opaque":
            return Opaque(self.const(name, usort(sh.a[0]), idx), sh.a[0])
        if k == "opt":
            return Opt(self.const(name + "?", "bool", idx), self.make(sh.a[0], name, idx))
        if k == "tuple":
            return tuple(self.make(s, f"{name}.{i}", idx) for i, s in enumerate(sh.a))
        if k == "list":
            return [self.make(s, f"{name}.{i}", idx) for i, s in enumerate(sh.a)]
        if k == "obj":
            base = {}
            ns = I.NS(**{f: self.make(s, f"{name}.{f}", idx) for f, s in sh.k.items()})
            return ns
        if k == "record":
            cls = resolve_class(ip, sh.a[0])
            vals = {}
            for fname, ann, dflt in cls.all_fields():
                if fname in sh.k:
                    fs = sh.k[fname]
                else:
                    fs = ann_shape(ip, cls, ann)
                vals[fname] = self.make(fs, f"{name}.{fname}", idx)
            return Rec(cls, vals)
        if k == "elem":
            attrib = self.make(sh.k.get("attrib", {}), name + ".attrib", idx)
            base = self.make(sh.k["children"], name + ".nchildren", idx) if "children" in sh.k else 0
            if isinstance(base, Sym):
                self.side.append(base.t >= 0)
            el = ip.B.ElemV(sh.a[0], dict(attrib), base)
            # kids=[shape, ...]: the element's children, in document order
            for i, cs in enumerate(sh.k.get("kids", ())):
                ch = self.make(cs, f"{name}.kid{i}", idx)
                ch = self.make(ch, f"{name}.kid{i}", idx)  # shapes inside Const templates
                el.children.append(ch)
                if isinstance(ch, ip.B.ElemV):
                    ch.parent = el
            return el
        if k == "assoc":
            # a dict with the given (key shape, value shape) entries; keys pairwise distinct
            items = [(self.make(ks, f"{name}.k{i}", idx), self.make(vs, f"{name}.v{i}", idx)) for i, (ks, vs) in enumerate(sh.a)]
            for i in range(len(items)):
                for j in range(i):
                    e = ip.eq(items[i][0], items[j][0])
                    if e is True:
                        raise EngineError("AssocOf: equal keys")
                    if e is not False:
                        self.side.append(z3.Not(to_bool_term(e)))
            return I.AssocV(items)
        if k == "instance":
            cls = resolve_class(ip, sh.a[0])
            return Rec(cls, {f: self.make(s, f"{name}.{f}", idx) for f, s in sh.k.items()}, mutable=True)
        if k == "enum":
            cls = resolve_class(ip, sh.a[0])
            raise EngineError("symbolic enum member: use OneOf over the members")
        if k == "seq":
            if idx is not None:
                raise EngineError("nested symbolic sequences")
            ln = z3.Int(name + ".len")
            self.side.append(ln >= 0)
            if "max_len" in sh.k:
                self.side.append(ln <= sh.k["max_len"])
            elem = sh.a[0]
            kind = sh.k.get("kind", "list")
            return SeqV(ln, lambda j, elem=elem, name=name: self.make(elem, name + "[]", (j,)), kind, name)
        if k == "oneof":
            raise EngineError("OneOf must be expanded by the driver")
        raise EngineError(f"unknown shape {k}")

    def _side(self, t, idx):
        if idx is None:
            self.side.append(t)
        else:
            # constraint on every element: quantify over the index variables that are
            # plain constants; otherwise just assert for this instance
            self.side.append(t)


def expand_oneof(shapes):
    """[(name, shape)] -> list of variants with every OneOf replaced by one alternative"""
    variants = [[]]
    for name, sh in shapes:
        alts = _alts(sh)
        variants = [v + [(name, a)] for v in variants for a in alts]
    return variants


def _alts(sh):
    if not isinstance(sh, Shape):
        return [sh]
    if sh.kind == "oneof":
        out = []
        for a in sh.a:
            out += _alts(a)
        return out
    if sh.kind in ("tuple", "list"):
        combos = [[]]
        for s in sh.a:
            combos = [c + [x] for c in combos for x in _alts(s)]
        return [Shape(sh.kind, *c) for c in combos]
    if sh.kind in ("record", "obj"):
        keys = list(sh.k)
        combos = [{}]
        for kk in keys:
            combos = [{**c, kk: x} for c in combos for x in _alts(sh.k[kk])]
        return [Shape(sh.kind, *sh.a, **c) for c in combos]
    if sh.kind == "opt":
        return [Shape("opt", x) for x in _alts(sh.a[0])]
    if sh.kind == "const" and isinstance(sh.a[0], dict):
        keys = list(sh.a[0])
        combos = [{}]
        for kk in keys:
            combos = [{**c, kk: x} for c in combos for x in _alts(sh.a[0][kk])]
        return [c for c in combos]
    return [sh]


# ------------------------------------------------------------------ model -> JSON


def _num(model, t):
    v = model.eval(t, model_completion=True)
    if z3.is_int_value(v):
        return v.as_long()
    if z3.is_rational_value(v):
        return {"__frac__": [str(v.numerator_as_long()), str(v.denominator_as_long())]}
    if z3.is_algebraic_value(v):
        a = v.approx(20)
        return {"__frac__": [str(a.numerator_as_long()), str(a.denominator_as_long())], "approx": True}
    if z3.is_true(v):
        return True
    if z3.is_false(v):
        return False
    if z3.is_string_value(v):
        return v.as_string()
    return {"__term__": str(v)}


def to_json(v, model, max_seq=8):
    if isinstance(v, Sym):
        return _num(model, v.t)
    if isinstance(v, bool) or v is None or isinstance(v, (int, str)):
        return v
    if isinstance(v, Fraction):
        return {"__frac__": [str(v.numerator), str(v.denominator)]}
    if isinstance(v, Rec):
        return {"__rec__": v.cls.qualname, "fields": {k: to_json(x, model) for k, x in v.f.items()}}
    if isinstance(v, tuple):
        return {"__tuple__": [to_json(x, model) for x in v]}
    if isinstance(v, list):
        return [to_json(x, model) for x in v]
    if isinstance(v, dict):
        return {"__dict__": [[to_json(k, model), to_json(x, model)] for k, x in v.items()]}
    if isinstance(v, Opaque):
        return {"__opaque__": v.tag, "id": str(model.eval(v.t, model_completion=True))}
    if isinstance(v, Opt):
        p = model.eval(v.present, model_completion=True)
        return to_json(v.value, model) if z3.is_true(p) else None
    if isinstance(v, SeqV):
        n = model.eval(v.length, model_completion=True)
        n = n.as_long() if z3.is_int_value(n) else 0
        items = [to_json(v.get(z3.IntVal(i)), model) for i in range(min(n, max_seq))]
        return {"__seq__": v.kind, "len": n, "items": items}
    if isinstance(v, I.NS):
        return {"__obj__": {k: to_json(x, model) for k, x in v.__dict__.items()}}
    if isinstance(v, I.EnumMember):
        return {"__enum__": v.cls.qualname, "name": v.name}
    if isinstance(v, ExcV):
        return {"__exc__": v.cls_name}
    if isinstance(v, (MapV, PredSetV)):
        return {"__repr__": "<symbolic map/set>"}
    if isinstance(v, SizedV):
        n = model.eval(v.n, model_completion=True)
        return {"__bytes__": n.as_long() if z3.is_int_value(n) else 0}
    if type(v).__name__ == "ElemV":
        return {"__elem__": v.tag, "attrib": {k: to_json(x, model) for k, x in v.attrib.items()}, "children": [to_json(c, model) for c in v.children]}
    if isinstance(v, OpaqueStr):
        return "<str>"
    if isinstance(v, I.ClassV):
        return {"__class__": v.qualname}
    return {"__repr__": repr(v)}
