"""Sequences of unknown length (functional representation) and finite sets."""
import z3
from .values import *
from . import ops


def seq_of_list(ip, xs):
    xs = list(xs)
    n = len(xs)

    def get(j):
        if n == 0:
            raise EngineError("element of empty sequence")
        res = xs[n - 1]
        for k in reversed(range(n - 1)):
            res = ip.ite_val(mk(j == k, "bool"), xs[k], res)
        return res

    return SeqV(z3.IntVal(n), get, "list")


def seq_append(ip, s, x):
    ln = s.length
    old = s.get
    return SeqV(z3.simplify(ln + 1), lambda j: ip.ite_val(mk(j == ln, "bool"), x, old(j)), s.kind, s.name)


def seq_concat(ip, a, b):
    la = a.length
    ga, gb = a.get, b.get
    return SeqV(
        z3.simplify(la + b.length),
        lambda j: ip.ite_val(mk(j < la, "bool"), ga(j), gb(z3.simplify(j - la))),
        a.kind,
        a.name,
    )


def _norm_index(s, i):
    """python index (negative allowed) -> offset term"""
    if isinstance(i, int):
        return z3.IntVal(i) if i >= 0 else z3.simplify(s.length + i)
    t = term(i, "int")
    return z3.If(t >= 0, t, t + s.length)


def seq_getitem(ip, s, idx):
    if isinstance(idx, slice):
        return seq_slice(ip, s, idx)
    t = term(idx, "int")
    inb = mk(z3.And(t >= -s.length, t < s.length), "bool")
    if not ip.pure:
        if not ip.branch(inb):
            raise PyRaise(ExcV("IndexError", ()))
    return s.get(z3.simplify(_norm_index(s, idx)))


def _clamp(t, lo, hi):
    return z3.If(t < lo, lo, z3.If(t > hi, hi, t))


def seq_slice(ip, s, sl):
    if sl.step not in (None, 1):
        raise EngineError("slice step on symbolic sequence")
    n = s.length
    zero = z3.IntVal(0)
    lo = zero if sl.start is None else _clamp(_norm_index(s, sl.start), zero, n)
    hi = n if sl.stop is None else _clamp(_norm_index(s, sl.stop), zero, n)
    ln = z3.simplify(z3.If(hi > lo, hi - lo, zero))
    lo = z3.simplify(lo)
    get = s.get
    return SeqV(ln, lambda j: get(z3.simplify(j + lo)), s.kind, s.name)


class FSetV:
    """finite set whose members may be symbolic: a list of members that are pairwise
    distinct under the current path condition (deduplication branches on equality)"""

    def __init__(self, items):
        self.items = list(items)

    def contains(self, ip, x):
        from .ops import b_or

        return b_or(*[ip.eq(x, e) for e in self.items]) if self.items else False

    def iterate(self, ip):
        return list(self.items)

    def length(self, ip):
        return len(self.items)

    def truthy(self):
        return len(self.items) > 0

    def get_attr(self, ip, name):
        from . import interp as I

        if name == "add":
            def add(ip_, a, k):
                if not ip_.branch(self.contains(ip_, a[0])):
                    self.items.append(a[0])
            return I.PyFn("add", add)
        raise EngineError(f"set.{name} on a finite symbolic set")


def setv_from_list(ip, items):
    out = FSetV([])
    for x in items:
        c = out.contains(ip, x)
        if c is True or (c is not False and ip.branch(c)):
            continue
        out.items.append(x)
    return out
