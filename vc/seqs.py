"""Sequences of unknown length (functional representation) and finite sets."""
import z3
from .values import *
from . import ops


def seq_of_list(ip, xs):
    xs = list(xs)
    n = len(xs)

    def get(j):
        if n == 0:
            raise EngineError("element of empty sequence")
        res = xs[n - 1]
        for k in reversed(range(n - 1)):
            res = ip.ite_val(mk(j == k, "bool"), xs[k], res)
        return res

    return SeqV(z3.IntVal(n), get, "list")


def seq_append(ip, s, x):
    ln = s.length
    old = s.get
    return SeqV(z3.simplify(ln + 1), lambda j: ip.ite_val(mk(j == ln, "bool"), x, old(j)), s.kind, s.name)


def seq_concat(ip, a, b):
    la = a.length
    return SeqV(
        z3.simplify(la + b.length),
        lambda j: ip.ite_val(mk(j < la, "bool"), a.get(j), b.get(z3.simplify(j - la))),
        a.kind,
        a.name,
    )


def _norm_index(s, i):
    """python index (negative allowed) -> offset term"""
    if isinstance(i, int):
        return z3.IntVal(i) if i >= 0 else z3.simplify(s.length + i)
    t = term(i, "int")
    return z3.If(t >= 0, t, t + s.length)


def seq_getitem(ip, s, idx):
    if isinstance(idx, slice):
        return seq_slice(ip, s, idx)
    t = term(idx, "int")
    inb = mk(z3.And(t >= -s.length, t < s.length), "bool")
    if not ip.pure:
        if not ip.branch(inb):
            raise PyRaise(ExcV("IndexError", ()))
    return s.get(z3.simplify(_norm_index(s, idx)))


def _clamp(t, lo, hi):
    return z3.If(t < lo, lo, z3.If(t > hi, hi, t))


def seq_slice(ip, s, sl):
    if sl.step not in (None, 1):
        raise EngineError("slice step on symbolic sequence")
    n = s.length
    zero = z3.IntVal(0)
    lo = zero if sl.start is None else _clamp(_norm_index(s, sl.start), zero, n)
    hi = n if sl.stop is None else _clamp(_norm_index(s, sl.stop), zero, n)
    ln = z3.simplify(z3.If(hi > lo, hi - lo, zero))
    lo = z3.simplify(lo)
    return SeqV(ln, lambda j: s.get(z3.simplify(j + lo)), s.kind, s.name)


def setv_from_list(ip, items):
    raise EngineError("set with symbolic members (finite-scope sets not modelled here)")
