#!/bin/bash
# run every claimed check (quick tier); extra args are passed to run.py (e.g. --update-baseline)
cd "$(dirname "$0")/.."
rc=0
for p in $(python3 -c "import json;print(' '.join(c['property_id'] for c in json.load(open('MANIFEST.json'))['checks']))"); do
  python3-vt vc/run.py --property $p "$@" | grep -v "^KNOWN-FINDING" | tail -3
  r=${PIPESTATUS[0]}
  [ $r -ne 0 ] && rc=$r
done
exit $rc
