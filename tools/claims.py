NOT_APPLICABLE = {
    "C09": "whole-history / crash-point behaviour of ninja and the file system: no nanoemoji function has a postcondition that could state it (DESIGN.md section 6)",
    "C18": "interpolation and variable COLR are implemented in ufo2ft/fontTools.varLib; nanoemoji only passes records through, a contract would restate assignments and decide nothing (DESIGN.md section 6)",
}
CLAIMS = {
    "C01": {
        "text": "Partial. Machine-checked for all inputs: the viewBox->font-space affine (em-height scale, centring in the advance, y flip at the ascender, user transform last), the advance rule, the composition order of gradientTransform / bounding-box / font maps, mapping of linear and radial gradient geometry (with the uniform/residual split), the transform encoder, a gradient's colour line (stops in document order, offsets as SVG reads them: clamped and non-decreasing, spread method; 1-3 stops, finite scope), and the affine-covariance lemmas that turn 'geometry mapped by T' into 'same colour at corresponding points'. The composition of these links into 'same picture' is prose (DESIGN.md section 4 C01); SVG parsing, ufo2ft/fontTools compilation and rendering are assumed.",
        "note": "A-real; picosvg SVG parsing/normal form, SVGLinearGradient/SVGRadialGradient.from_element, Affine2D.fromstring, ufo2ft COLR builder, fontTools compile and COLRv1 rendering semantics are assumed; tree traversal and lxml-facing functions are covered by the bounded tier only.",
        "design_ref": "DESIGN.md section 4 C01",
    },
    "C02": {
        "text": "Partial. Discharged for all inputs: viewBox->OT-SVG affine (y down, baseline at 0, centred, user transform), <use> creation (href, x/y iff non-zero, residual matrix; lemma L-use: M o T(x,y) = reuse affine), gradient coordinate mapping (linear: three points; radial: centres mapped, radii scaled by the similarity factor sqrt(a^2+b^2) and never negative, anything but a similarity - uniform scale, rotation, reflection, translation - rejected). Bounded: generated source sets built as picosvg/picosvgz fonts; exactly one element glyph<ID> in the covering document, rendered by a small SVG evaluator and compared by sampling with the source specification; document structure (sorted disjoint ranges, unique ids, resolving hrefs, no cross-glyph references). Also discharged: _apply_paint (a transform paint's own affine is applied before the pending one; gradients get the pending transform conjugated by the viewBox map; unsupported paints raise), _apply_solid_paint (fill omitted exactly for plain black, opacity iff translucent); finite scope: _apply_gradient_paint (cache invariant - every cached id was defined with its key - and the fill refers to the normal form of this paint, gradients abstracted to ghost identities).",
        "note": "lxml document assembly, reuse grouping and glyph-order reshuffle are bounded-tier only; _ntos/_svg_matrix string formatting abstracted as functions of the number/affine; SVG rendering semantics as implemented in contracts/e2e.py; A-real.",
        "design_ref": "DESIGN.md section 4 C02",
    },
    "C03": {
        "text": "Partial. _colr0_layers: one layer per PaintGlyph leaf in z-order, transformed leaves through a one-component glyph carrying the COLR-semantics accumulated transform, palette index of the non-opaque colour (finite scope over 4 tree shapes, labelled bounded); viewBox->font affine discharged for all inputs; _create_transformed_glyph: exactly one component of the layer's outline glyph under exactly the accumulated transform (all six numbers; ufoLib2 constructors summarised). Bounded: generated solid-fill source sets built as COLRv0 (glyf and CFF) and compared by sampling; glyf builds: every source outline placed exactly once at its source position, nothing else.",
        "note": "ufoLib2/ufo2ft/fontTools assumed (Component keeps its keyword arguments; glyph naming bounded-tier only).  Observation (not claimed by the statement): in a plain glyf build a mirrored reused component that overlaps another shape cancels it under non-zero winding (upstream issue #287; color_glyph._any_overlap_with_reversing_transform is dead code).",
        "design_ref": "DESIGN.md section 4 C03",
    },
    "C04": {
        "text": "Partial. The advance rule is discharged for all inputs. Bounded: generated source sets (single codepoints, ZWJ/VS/modifier sequences, prefix sequences) built with the generated feature file in COLRv1/v0, glyf, CFF and OT-SVG; on the compiled font cmap reaches each single-codepoint source's glyph, cmap + the GSUB ligature rules reach each sequence's glyph, distinct sources reach distinct glyphs, each reached glyph shows its own source's artwork, glyph 0 is .notdef with an outline, U+0020 and sequence-only codepoints map to blank glyphs, exactly one ligature rule per sequence; glyph names legal and distinct (known finding F6).",
        "note": "feaLib/ufo2ft cmap and GSUB compilation assumed; shaping is modelled as cmap lookup plus exact ligature match.",
        "design_ref": "DESIGN.md section 4 C04",
    },
    "C07": {
        "text": "Partial. Discharged for all inputs: the CBDT offset table (loop invariant: contiguous records of 9 + len(png) bytes from the initial offset). Bounded: fonts generated in all 13 colour formats reload fully, decompile every table, re-save to the same tables; COLR base records sorted with all glyph, layer and palette references in range; SVG documents sorted and disjoint with unique ids, resolving hrefs, no cross-glyph references and one glyph<ID> element per id; CBLC strikes index consecutive runs with one bitmap per glyph; cmap/hmtx/glyf/maxp agree; post format 3 iff names were not requested (TrueType flavour).",
        "note": "fontTools serialisation assumed; maximum_color output is not covered.",
        "design_ref": "DESIGN.md section 4 C07",
    },
    "C17": {
        "text": "Partial. Discharged for all inputs: config.validate rejects exactly the invalid metric/version/quantisation values and variable bitmap/OT-SVG configurations; palette index conflicts raise (finite scope); out-of-range gradient coordinates raise. Bounded: duplicate glyph names / codepoint sequences, palette conflicts, unsupported fills, unknown spreadMethod, oversize bitmaps, missing or unparsable sources, duplicate basenames, differing master source sets and command-line inputs the driver does not recognise (through the real CLI) all end in an exception and no font (kinds stratified by case index); write_font.main writes only after _generate_color_font returned.",
        "note": "that ninja stops and the CLI exits non-zero when a step fails (subprocess.run(check=True)) is assumed.",
        "design_ref": "DESIGN.md section 4 C17",
    },
    "C20": {
        "text": "Partial. Discharged for all inputs: flag > file > default precedence, config.validate, the viewBox maps' use of the user transform and metrics, ppem, clip-box quantisation. Bounded: write->load identity and flag precedence end to end; fonts built with random option values carry family, upem, ascender/descender/linegap in hhea and OS/2 with USE_TYPO_METRICS, version, post format, tables per colour format, advance rule, space width and clip-box step.  Multi-configuration invocations: the build graph of two configurations (own intermediates, declared inputs; findings F4, F8, F10 pinned) and of two to four configurations whose sources share a basename (each glyph map derived from its own sources); bitmap_resolution and variable-font post format through the real CLI.",
        "note": "ufo2ft info->tables assumed; driver-level build graph (nanoemoji.py) not under contract.",
        "design_ref": "DESIGN.md section 4 C20",
    },
    "C05": {
        "text": "Quantisation (edges are multiples of the step, containment within one step), the rounding/protrusion lemmas (compiled outline points protrude by at most half the transform's row sums plus 1/2) are discharged for all inputs; _bounds (None iff nothing painted, contains every placed shape after otRound, measured under the COLR-semantics accumulated transform, every leaf measured) by exhaustive symbolic execution over 6 paint-tree shapes x up to 2 roots (finite scope, labelled bounded).",
        "note": "A-real; _transformed_glyph_bounds (fontTools ControlBoundsPen/TransformPen) is an assumed contract, conformance-checked natively; A-fdiv: math.floor(v / q) on floats equals the real floor for |v| < 2^31; ufo2ft ClipList writer assumed.",
        "design_ref": "DESIGN.md section 4 C05",
    },
    "C06": {
        "text": "Partial (relational property decided through per-build contracts). Discharged for all inputs: try_reuse returns a donor iff picosvg reports a match whose affine fits Fixed and never when reuse is disabled (any negative tolerance, as documented); add_glyph registers under the normal form; _update_paint_glyph emits either a fresh glyph or the donor under (approximately) the reuse affine with solid fills kept, linear and radial gradients counter-transformed by exactly 'wrapper then inverse reuse affine' (cancellation lemma), un-reused iff that counter-transform does not fit Fixed. Bounded, through the real command line (part-file steps included): a positive tolerance and a negative one (-1, -0.5, -2) both build and both fonts paint the sources. Known finding F9 (tolerance 0) is excluded by its witness class.",
        "note": "picosvg normalize/affine_between are uninterpreted functions with assumed contracts (functional; an affine that maps donor to target within tolerance, invertible); SVGPath.apply_transform uninterpreted; _create_glyph assumed; non-singularity of the combined gradient transform assumed at the _decompose_uniform_transform call; OT-SVG reuse (<use>) is bounded-tier only; A-real.",
        "design_ref": "DESIGN.md section 4 C06",
    },
    "C19": {
        "text": "Partial. Discharged: try_reuse never declines a match picosvg reports (result is None iff reuse disabled, no donor with the same normal form, no affine, or affine outside Fixed); _update_paint_glyph takes a non-None reuse result unless the gradient counter-transform overflows. That picosvg's normal form is invariant under translation/rotation/reflection is an assumption about the dependency, checked in the bounded tier. Bounded: congruent copies stored once (COLRv1, OT-SVG; within and across glyphs); a cache history of shapes with pairwise different normal forms finds every earlier shape for its exact translated copy (known findings K10, K12: normal-form keyed cache, pinned by witnesses).",
        "note": "picosvg normalize/affine_between assumed (uninterpreted); OT-SVG <use> creation bounded-tier only.",
        "design_ref": "DESIGN.md section 4 C19",
    },
    "C08": {
        "text": "Bounded only (no contract within reach can decide byte-for-byte determinism of a process): with SOURCE_DATE_EPOCH fixed the real CLI is run twice on generated source sets, varying exactly one of argv order, PYTHONHASHSEED, build-directory location, working directory, ninja parallelism, and the output bytes must be identical. The palette's independence of set iteration order follows from the finite-scope functional postcondition of uniq_sort_cpal_colors (C15).",
        "note": "process-level runs with a stated bound (8 stratified pairs quick / 60 thorough; plus the maximum_color runs of C12 under other hash seeds); ninja scheduling beyond -j1 vs default, file-system ordering and fontTools' SOURCE_DATE_EPOCH handling are exercised but not modelled.",
        "design_ref": "DESIGN.md B.1, section 4 C08",
        "category": "other",
        "technique": "bounded native stand-in (the real CLI run twice under one varied factor, byte comparison); finite-scope symbolic postcondition for the palette order; no deductive claim",
    },
    "C12": {
        "text": "Bounded only: the real maximum_color pipeline (ninja, offline) is run on generated COLRv1 / COLRv0 / OT-SVG fonts; the written font must keep the character map and advances, keep the original colour table and add the complementary one (and CBDT/CBLC with --bitmaps, one bitmap per colour glyph), keep or strip glyph names as requested, and for every colour glyph the COLR and SVG tables must paint the same picture as the input for the glyph reached from the same codepoint (sampling with the COLR and SVG evaluators of contracts/e2e.py).",
        "note": "8 stratified pipeline runs quick / 80 thorough (COLRv1/COLRv0/OT-SVG inputs, kern+mark features compared by codepoint, metrics variety incl. hhea / win metrics unlike the typo metrics, options given to maximum_color itself (--clipbox_quantization, --bitmap_resolution: they must reach the added tables), shared shapes, translucent foreground colour, --bitmaps, other hash seeds) plus glue_together._copy_cbdt on fonts with interrupted glyph-id runs; glue_together's bookkeeping loops are not under a deductive contract.",
        "design_ref": "DESIGN.md B.1, section 4 C12",
        "category": "other",
        "technique": "bounded native stand-in (real maximum_color pipeline on generated fonts, picture comparison by sampling); no deductive claim",
    },
    "C10": {
        "text": "Partial. Discharged for all inputs: flag > file > default precedence of _pop_flag (int, str and None-default options), config.validate's rejection conditions. Bounded (native execution of the real functions on generated inputs, stated bounds): config write->load field-for-field, flag precedence end to end, glyph-map CSV rows, file-name -> codepoints, glyph names legal and distinct, feature rules, parts JSON, response files. Also bounded: multi-axis / multi-master configurations through write -> load including every master's source list for file names with glob / shell / TOML metacharacters, and the one-master configuration of the UFO step; the name-token lemma (exhaustive over all code points: tokens legal, letters kept, no two code points share a token). Known findings K7 (toml strings), K8 (leading blank in a path), F6 (g_ prefix collision), K11 (derived output_ufo of the UFO-step configuration) are excluded by their witness classes and re-executed on every run.",
        "note": "toml, csv, regex, json, shlex, hashlib are dependencies; string-level functions are outside the proved subset (bounded tier only).",
        "design_ref": "DESIGN.md section 4 C10",
    },
    "C11": {
        "text": "_sort_by_gid keeps (glyph, parallel entry) pairs together and orders by glyph id (exhaustive symbolic execution for coverages of up to 3 glyphs: finite scope, labelled bounded). Exhaustive finite enumerations: every coverage-indexed array and glyph-ordered list the OpenType GSUB/GPOS/GDEF chapters define is in nanoemoji's rule table, every rule's attribute path exists in fontTools otData, every Coverage field of otData has a rule. Bounded: a font (TrueType outlines, every third case CFF outlines) with single/pair/cursive/mark-base/mark-lig/mark-mark/contextual/reverse-chaining lookups and GDEF lists is permuted randomly, saved and reloaded; cmap, metrics, outlines and every lookup's name-level meaning are unchanged and every coverage table is sorted.",
        "note": "fontTools iterSubTables reaches every subtable; lookups fontTools models as name-keyed dicts are re-sorted by fontTools; MATH is outside the property.",
        "design_ref": "DESIGN.md section 4 C11",
        "category": "other",
    },
    "C13": {
        "text": "Partial. Discharged for all inputs: every transform paint's gettransform equals the COLR specification's affine; font->viewBox map is the inverse of the C01 placement; _apply_transform conjugates by the font->viewBox map and resets the transform; palette entry -> colour (foreground -> currentColor, CPAL alpha x paint alpha, index kept iff multi-palette, out of range raises); uniform/residual split of radial gradients. Bounded: generated COLRv1 fonts converted by colr_to_svg and compared by sampling against a COLR evaluator (colour lines tile their defined interval), including hand-made graphs: colour-glyph references under transforms, graphs clipped by an outline. Known finding F21 (repeat / reflect over stops that do not span [0, 1]) is pinned by its witness. Also discharged per paint format: _colr_v1_paint_to_svg transform accounting (written o passed-down == pending o own, hence by induction over the acyclic paint graph every leaf is drawn through the product of the transforms on its path, once), a PaintGlyph over a fill is a <path>, over anything else a <g> clipped by the outline (fill-or-graph decided by _is_fill, summarised by a ghost predicate and checked on chains of up to three transforms), group opacity iff SRC_IN over a black solid and otherwise a warning; finite scope: layer runs, _apply_gradient_ot_paint (linear: all three points through pending-then-viewBox; radial: circles through the uniform part, residual as gradientTransform; colour line kept), _apply_solid_ot_paint.",
        "note": "lxml document assembly, SVGPathPen and fontTools glyph drawing are bounded-tier only; trigonometric functions uninterpreted; SVG renderer semantics assumed as implemented in contracts/e2e.py.",
        "design_ref": "DESIGN.md section 4 C13",
    },
    "C14": {
        "text": "ppem, pixel advance, horizontal centring, vertical placement within one pixel (two when nudged; for em <= 2*upem), the int8 nudge, format-17 record size and the contiguous offset table (loop invariant) are discharged for all inputs from the current source. The bitmap's own pixel height is used throughout (no assumption that it equals bitmap_resolution); for sbix no 8-bit limit may reject a build. Finite scope (1-2 glyphs): make_sbix_table / _make_cbdt_strike raise when bitmap heights differ and otherwise give the strike the ppem of every glyph in it, hold one record per glyph under its name with its own image at the offsets computed from that image, and (sbix) put bottom and top edge within one pixel of the scaled em box.",
        "note": "A-real; em > 2*upem is only covered by the general clause; fontTools CBDT/sbix writers and PIL's PNG size are assumed.",
        "design_ref": "DESIGN.md section 4 C14",
    },
    "C15": {
        "text": "Index lookup (first match, 0xFFFF for currentColor, error when absent), opaque(), the v1 alpha split in PaintSolid.to_ufo_paint are discharged for all inputs. The slot assignment of uniq_sort_cpal_colors is decided by exhaustive symbolic execution of the real loops in a finite scope (<= 3 colours, indices 0..5, channels unconstrained) -- labelled bounded, not counted as proved. Also discharged: _color_stop (every opacity multiplies in, colour and palette index kept); finite scope: Color.fromstring on representative texts (caller's alpha multiplies the text's alpha, illegal hex lengths and unknown forms raise).",
        "note": "A-real; sorted() modelled by permutation/order/stability axioms; Color.fromstring is bounded-tier only; ufo2ft CPAL writer assumed.",
        "design_ref": "DESIGN.md section 4 C15",
    },
    "C16": {
        "text": "Every obligation generated from the current source of the transform encoder, the range predicates, the gettransform methods, the uniform/residual split and the gradient apply_transform/check_overflows is discharged by z3/cvc5 for all inputs (floats as reals).",
        "note": "A-real (floats as mathematical reals); trigonometric functions uninterpreted with the Pythagorean identities; picosvg Affine2D source interpreted as installed; fontTools raising on out-of-range Fixed is assumed.",
        "design_ref": "DESIGN.md section 4 C16",
    },
}
