NOT_APPLICABLE = {
    "C09": "whole-history / crash-point behaviour of ninja and the file system: no nanoemoji function has a postcondition that could state it (DESIGN.md section 6)",
    "C18": "interpolation and variable COLR are implemented in ufo2ft/fontTools.varLib; nanoemoji only passes records through, a contract would restate assignments and decide nothing (DESIGN.md section 6)",
}
CLAIMS = {
    "C16": {
        "text": "Every obligation generated from the current source of the transform encoder, the range predicates, the gettransform methods, the uniform/residual split and the gradient apply_transform/check_overflows is discharged by z3/cvc5 for all inputs (floats as reals).",
        "note": "A-real (floats as mathematical reals); trigonometric functions uninterpreted with the Pythagorean identities; picosvg Affine2D source interpreted as installed; fontTools raising on out-of-range Fixed is assumed.",
        "design_ref": "DESIGN.md section 4 C16",
    },
}
