#!/bin/bash
# after fix: commits in /repo some recorded patches no longer apply: re-base them with a 3-way
# apply in a scratch worktree (the original is kept as patch.orig.diff); lists what needs a hand
WT=${1:-/tmp/scratch/head}
cd "$(dirname "$0")/.."
for d in seeded/*/; do
  n=$(basename $d)
  git -C $WT checkout -q -- . ; git -C $WT reset -q --hard HEAD
  if git -C $WT apply --check $PWD/$d/patch.diff 2>/dev/null; then continue; fi
  if git -C $WT apply --3way $PWD/$d/patch.diff >/dev/null 2>&1 && [ -z "$(git -C $WT diff --name-only --diff-filter=U)" ]; then
    [ -f $d/patch.orig.diff ] || cp $d/patch.diff $d/patch.orig.diff
    git -C $WT diff HEAD -- src > $d/patch.diff
    echo "re-based $n"
  else
    echo "NEEDS A HAND: $n"
  fi
done
git -C $WT checkout -q -- . ; git -C $WT reset -q --hard HEAD
