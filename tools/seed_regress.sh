#!/bin/bash
# apply every seeded change to a scratch worktree (never /repo) and run the quick checks of the
# properties recorded in its meta.json: each must exit 1.  usage: tools/seed_regress.sh [name-substr]
cd "$(dirname "$0")/.."
# SHARD=k/n runs every n-th change (own worktree), so that several shards can run side by side
K=${SHARD%/*}; N=${SHARD#*/}; [ -z "$SHARD" ] && { K=0; N=1; }
WT=/tmp/scratch/seedreg$K
rm -rf $WT; git -C /repo worktree prune; git -C /repo worktree add --detach $WT HEAD -q || exit 3
miss=0
idx=-1
for d in seeded/*/; do
  n=$(basename $d)
  idx=$((idx+1)); [ $((idx % N)) -ne $K ] && continue
  [[ -n "$1" && "$n" != *$1* ]] && continue
  props=$(python3 -c "import json,sys;m=json.load(open('$d/meta.json'));print(' '.join(m.get('detected_by') or m.get('detected_after_strengthening') or [m.get('property')]))")
  git -C $WT checkout -q -- . ; git -C $WT apply $PWD/$d/patch.diff || { echo "$n: patch does not apply"; continue; }
  caught=""
  for p in $props; do
    python3-vt vc/run.py --property $p --repo $WT --evidence /tmp/scratch/seedreg_ev$K.json >/tmp/scratch/seedreg_out$K.txt 2>&1
    rc=$?
    [ $rc -eq 1 ] && caught="$caught $p"
    [ $rc -ne 1 ] && echo "   $n: $p exit $rc"
  done
  if [ -z "$caught" ]; then echo "MISSED $n (props: $props)"; miss=1; else echo "caught $n by$caught"; fi
done
git -C /repo worktree remove --force $WT; git -C /repo worktree prune
exit $miss
