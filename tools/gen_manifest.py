#!/usr/bin/env python3
"""Regenerate MANIFEST.json from the table below (kept in one place so the manifest never
drifts from what run.py implements)."""
import json, os

HERE = os.path.dirname(os.path.dirname(os.path.abspath(__file__)))
props = [json.loads(l)["id"] for l in open(os.path.join(HERE, "properties.jsonl"))]

CLAIMS = {}  # filled by tools/claims.py
exec(open(os.path.join(HERE, "tools", "claims.py")).read())

checks = []
for pid, c in CLAIMS.items():
    checks.append({
        "property_id": pid,
        "quick_cmd": f"python3-vt vc/run.py --property {pid} --tier quick",
        "thorough_cmd": f"python3-vt vc/run.py --property {pid} --tier thorough",
        "evidence_file": f"/verif/evidence/{pid}.json",
        "replay_cmd_template": "/venv/bin/python vc/native.py replay {path}",
        "engine": "vc",
        "level_claimed": {"category": c.get("category", "proof"), "text": c["text"], "design_ref": c.get("design_ref", "DESIGN.md section 4")},
        "level_note": c["note"],
        "technique": c.get("technique", "contract-based deductive verification: VCs generated from the AST of the real functions against sidecar contracts, discharged by z3/cvc5; bounded native execution of the same contracts as stand-in where stated"),
    })
na = [{"property_id": p, "reason": NOT_APPLICABLE.get(p, "machinery for this property not built yet (DESIGN.md section 9 build order)")} for p in props if p not in CLAIMS]
m = {
    "version": 1,
    "setup_cmd": "python3-vt -c \"import z3, cvc5\" && /venv/bin/python -c \"import nanoemoji, picosvg, fontTools\" && mkdir -p work",
    "hooks": {"guard": "NANOEMOJI_VERIF", "enable": "no hooks: contracts are sidecar files under /verif/contracts; the prover re-reads /repo source text on every run and the native tier imports /repo/src as installed", "baseline_off_cmd": "cd /repo && /venv/bin/python -m pytest -ra -q -p no:cacheprovider --timeout=900 --continue-on-collection-errors", "source_commits": [], "add_only": True},
    "engines": [{"name": "vc", "path": "/verif/vc", "serves_properties": sorted(CLAIMS), "kind_free_text": "own AST->SMT verification-condition generator (mixed concrete/symbolic interpreter over the real source) + z3/cvc5; native replay and bounded tier under /venv/bin/python"}],
    "checks": checks,
    "notes": "Contract-based deductive verification. Sidecar contracts in /verif/contracts, engine in /verif/vc, known findings in /verif/known_findings.json, seeded changes in /verif/seeded. See DESIGN.md.",
    "not_applicable": na,
}
json.dump(m, open(os.path.join(HERE, "MANIFEST.json"), "w"), indent=1)
print("checks:", sorted(CLAIMS), "n/a:", [x["property_id"] for x in na])
