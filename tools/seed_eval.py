#!/usr/bin/env python3
"""Confirm a seeded change produced by a sub-agent and run the checks against it.

  tools/seed_eval.py /tmp/wt/C10 [--name C10-latin1] [--props C10,C04] [--no-confirm]

Steps: (1) pinned suite in the worktree (PYTHONPATH=<wt>/src) must stay 235 passed / 45 failed,
(2) demo.py must fail on the changed tree and pass on /repo, (3) copy patch/demo/meta to
/verif/seeded/<name>/, (4) apply the patch to /repo, run the named property checks, undo.
"""
import argparse, json, os, re, shutil, subprocess, sys

HERE = os.path.dirname(os.path.dirname(os.path.abspath(__file__)))


def sh(cmd, **kw):
    return subprocess.run(cmd, shell=True, capture_output=True, text=True, **kw)


def main():
    ap = argparse.ArgumentParser()
    ap.add_argument("wt")
    ap.add_argument("--name")
    ap.add_argument("--props")
    ap.add_argument("--no-confirm", action="store_true")
    ap.add_argument("--tier", default="quick")
    ap.add_argument("--scratch", help="apply the patch to this scratch worktree of /repo (checks run with --repo) instead of /repo itself")
    a = ap.parse_args()
    wt = a.wt.rstrip("/")
    seed = os.path.join(wt, "seed")
    meta = json.load(open(os.path.join(seed, "meta.json")))
    name = a.name or os.path.basename(wt)
    props = (a.props or meta["property"]).split(",")
    out = {"name": name, "property": meta["property"], "summary": meta.get("summary"), "needs": meta.get("needs")}
    # the patch as the diff of src/ only
    patch = sh(f"git -C {wt} diff -- src").stdout
    if not patch.strip():
        print("no source change in worktree")
        return 2
    if not a.no_confirm:
        r = sh(f"cd {wt} && PYTHONPATH={wt}/src /venv/bin/python -m pytest -q -p no:cacheprovider --timeout=900 tests 2>&1 | tail -1")
        out["suite_with_change"] = r.stdout.strip()
        ok_suite = "235 passed" in r.stdout and "45 failed" in r.stdout
        r1 = sh(f"cd {seed} && PYTHONPATH={wt}/src /venv/bin/python demo.py", timeout=900)
        r0 = sh(f"cd {seed} && PYTHONPATH=/repo/src /venv/bin/python demo.py", timeout=900)
        out["demo_changed_exit"] = r1.returncode
        out["demo_original_exit"] = r0.returncode
        out["demo_changed_tail"] = (r1.stdout + r1.stderr)[-400:]
        confirmed = ok_suite and r1.returncode != 0 and r0.returncode == 0
        out["confirmed"] = confirmed
        print(json.dumps({k: out[k] for k in ("suite_with_change", "demo_changed_exit", "demo_original_exit", "confirmed")}))
        if not confirmed:
            print("NOT CONFIRMED:", out.get("demo_changed_tail"))
            return 2
    dst = os.path.join(HERE, "seeded", name)
    os.makedirs(dst, exist_ok=True)
    open(os.path.join(dst, "patch.diff"), "w").write(patch)
    shutil.copy(os.path.join(seed, "demo.py"), os.path.join(dst, "demo.py"))
    # run the checks against it
    tree = a.scratch or "/repo"
    st = sh(f"git -C {tree} status --porcelain").stdout.strip()
    if st:
        print(f"{tree} is not clean; refusing to apply", st)
        return 3
    r = sh(f"git -C {tree} apply {os.path.join(dst, 'patch.diff')}")
    if r.returncode:
        print("patch does not apply to /repo:", r.stderr)
        return 3
    results = {}
    try:
        for p in props:
            ev = f"/tmp/scratch/seed_ev_{p}.json"
            os.makedirs("/tmp/scratch", exist_ok=True)
            rr = sh(f"cd {HERE} && python3-vt vc/run.py --property {p} --tier {a.tier} --evidence {ev}" + (f" --repo {a.scratch}" if a.scratch else ""))
            lines = [l for l in rr.stdout.splitlines() if l.startswith(("VIOLATION", "CHECKER-ERROR", "UNDECIDED"))]
            results[p] = {"exit": rr.returncode, "lines": [l[:300] for l in lines[:6]]}
            print(p, "exit", rr.returncode, *[l[:200] for l in lines[:3]], sep="\n   ")
    finally:
        sh(f"git -C {tree} checkout -- .")
    out["checks"] = results
    out["detected_by"] = [p for p, r_ in results.items() if r_["exit"] == 1]
    meta_out = dict(meta)
    prev = os.path.join(dst, "meta.json")
    if a.no_confirm and os.path.exists(prev):
        try:
            old = json.load(open(prev))
            for k in ("suite_with_change", "demo_changed_exit", "demo_original_exit", "confirmed"):
                out.setdefault(k, (old.get("confirmation") or {}).get(k))
            meta_out["history"] = old.get("history", []) + [{"checks": old.get("checks"), "detected_by": old.get("detected_by")}]
        except Exception:
            pass
    meta_out.update({"what_i_ran": f"tools/seed_eval.py {wt} --props {','.join(props)} (suite, demo on both trees, then the quick checks with the patch applied to /repo and undone)", "confirmation": {k: out.get(k) for k in ("suite_with_change", "demo_changed_exit", "demo_original_exit", "confirmed")}, "checks": results, "detected_by": out["detected_by"]})
    json.dump(meta_out, open(os.path.join(dst, "meta.json"), "w"), indent=1)
    print("detected by:", out["detected_by"])
    return 0


if __name__ == "__main__":
    sys.exit(main())
