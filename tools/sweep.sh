#!/bin/bash
# false-alarm sweep: every claimed check at the given tier under the given seeds (default 0..3)
# usage: tools/sweep.sh [tier] [seed ...]      prints one line per (seed, property) that is not clean
cd "$(dirname "$0")/.."
tier=${1:-quick}; shift
seeds=${@:-0 1 2 3}
props=$(python3 -c "import json;print(' '.join(c['property_id'] for c in json.load(open('MANIFEST.json'))['checks']))")
for s in $seeds; do
  for p in $props; do
    out=$(VERIF_SEED=$s python3-vt vc/run.py --property $p --tier $tier --evidence work/sweep_${p}_$s.json 2>&1)
    rc=$?
    [ $rc -ne 0 ] && { echo "seed=$s $p exit=$rc"; echo "$out" | grep "VIOLATION\|UNDECIDED\|CHECKER" | head -3; }
  done
  echo "seed $s done"
done
