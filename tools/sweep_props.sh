#!/bin/bash
# false-alarm sweep over selected properties: tools/sweep_props.sh tier seed prop...
cd "$(dirname "$0")/.."
tier=$1; seed=$2; shift 2
for p in "$@"; do
  out=$(VERIF_SEED=$seed python3-vt vc/run.py --property $p --tier $tier --evidence work/sweep_${p}_$seed.json 2>&1)
  rc=$?
  [ $rc -ne 0 ] && { echo "seed=$seed $p exit=$rc"; echo "$out" | grep "VIOLATION\|UNDECIDED\|CHECKER" | head -3; }
  echo "$p done"
done
